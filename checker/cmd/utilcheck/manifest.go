package main

import (
	"bufio"
	"encoding/json"
	"fmt"
	"os"
	"path/filepath"
	"sort"

	"utilverif/internal/props"
)

// genManifest writes MANIFEST.json from the property table; properties.jsonl gives the full id list.
func genManifest(vdir string) error {
	f, err := os.Open(filepath.Join(vdir, "properties.jsonl"))
	if err != nil {
		return err
	}
	defer f.Close()
	var ids []string
	sc := bufio.NewScanner(f)
	sc.Buffer(make([]byte, 1<<20), 1<<22)
	for sc.Scan() {
		var p struct{ ID string }
		if json.Unmarshal(sc.Bytes(), &p) == nil && p.ID != "" {
			ids = append(ids, p.ID)
		}
	}
	sort.Strings(ids)
	var checks []map[string]interface{}
	na := []map[string]string{}
	var served []string
	for _, id := range ids {
		p := props.Table[id]
		if p == nil {
			reason := props.NotApplicable[id]
			if reason == "" {
				reason = "check not built yet (see DESIGN.md section 4 for the planned rules)"
			}
			na = append(na, map[string]string{"property_id": id, "reason": reason})
			continue
		}
		served = append(served, id)
		checks = append(checks, map[string]interface{}{
			"property_id":         id,
			"quick_cmd":           fmt.Sprintf("bin/utilcheck -property %s -tier quick", id),
			"thorough_cmd":        fmt.Sprintf("bin/utilcheck -property %s -tier thorough", id),
			"evidence_file":       fmt.Sprintf("/verif/evidence/%s.json", id),
			"replay_cmd_template": "bin/utilcheck -replay {path}",
			"engine":              "utilcheck",
			"level_claimed": map[string]string{
				"category":   "other",
				"text":       "Static analysis of the type-checked source (go/packages + go/types + AST path walker), repository-specific rules. Decided: " + p.Explanation + " NOT decided (a green run must not be read as covering it): " + p.NotDecided,
				"design_ref": "DESIGN.md §4 " + id,
			},
			"level_note": "Trusted base: go/packages loader and go/types; the walker's stated bounds (inlining <= 10 declared functions, loops unrolled 2, <= 60000 paths, exceeding them fails); assumptions: " + joinStr(p.Assumptions),
			"technique":  p.Technique,
		})
	}
	m := map[string]interface{}{
		"version":   1,
		"setup_cmd": "cd /verif/checker && GOFLAGS=-mod=mod GOPROXY=off GOSUMDB=off GOTOOLCHAIN=local GOWORK=off go build -o ../bin/utilcheck ./cmd/utilcheck",
		"hooks": map[string]interface{}{
			"guard":            "verif",
			"enable":           "none needed: static analysis reads the unmodified source; no hook commits exist",
			"baseline_off_cmd": "cd /repo && go test -vet=off -count=1 ./...",
			"source_commits":   []string{},
			"add_only":         true,
		},
		"engines": []map[string]interface{}{{
			"name":              "utilcheck",
			"path":              "/verif/checker",
			"serves_properties": served,
			"kind_free_text":    "repository-specific static analyser: go/packages + go/types, AST path walker with bounded inlining, lockset / waiter / exit-chain / typestate / control-dependence rules; decides obligations generated from /repo's current tree on every run, nothing is executed",
		}},
		"checks":         checks,
		"notes":          "All checks are static (family: static analysis). Each command re-loads and re-analyses /repo's working tree; VERIF_SEED is accepted and unused (no randomness). See DESIGN.md for rules, bounds, assumptions and which seeded changes each check catches.",
		"not_applicable": na,
	}
	b, err := json.MarshalIndent(m, "", " ")
	if err != nil {
		return err
	}
	return os.WriteFile(filepath.Join(vdir, "MANIFEST.json"), append(b, '\n'), 0o644)
}

func joinStr(s []string) string {
	out := ""
	for i, x := range s {
		if i > 0 {
			out += "; "
		}
		out += x
	}
	return out
}
