package main

import (
	"encoding/json"
	"flag"
	"fmt"
	"go/types"
	"os"
	"path/filepath"
	"sort"
	"strings"
	"time"

	"utilverif/internal/core"
	"utilverif/internal/props"
	"utilverif/internal/rules"
)

func verifDir() string {
	if d := os.Getenv("VERIF_DIR"); d != "" {
		return d
	}
	exe, err := os.Executable()
	if err == nil {
		// <verif>/bin/utilcheck
		return filepath.Dir(filepath.Dir(exe))
	}
	return "/verif"
}

func main() {
	repo := flag.String("repo", "/repo", "repository root")
	property := flag.String("property", "", "property id to check (C01 … C20)")
	tier := flag.String("tier", "", "quick or thorough (default: $VERIF_TIER or quick)")
	replay := flag.String("replay", "", "replay file written by an earlier run")
	evdir := flag.String("evidence", "", "evidence directory (default <verif>/evidence)")
	dump := flag.String("dump", "", "debug: dump the paths of pkg:Recv.Func (e.g. csync:Mutex.Lock)")
	follow := flag.String("follow", "", "debug: comma separated function names to inline (or 'all')")
	access := flag.Bool("access", false, "debug: emit access events")
	maxp := flag.Int("n", 5, "debug: number of paths to print")
	rule := flag.String("rule", "", "debug: run one rule and print its obligations")
	scope := flag.String("scope", "", "debug: comma separated package scope")
	verbose := flag.Bool("v", false, "print discharged obligations too")
	genman := flag.Bool("gen-manifest", false, "maintenance: regenerate MANIFEST.json from the property table")
	flag.Parse()
	if *genman {
		if err := genManifest(verifDir()); err != nil {
			fmt.Fprintln(os.Stderr, err)
			os.Exit(2)
		}
		return
	}
	if *tier == "" {
		*tier = os.Getenv("VERIF_TIER")
	}
	if *tier != "thorough" {
		*tier = "quick"
	}
	vdir := verifDir()
	if *evdir == "" {
		*evdir = filepath.Join(vdir, "evidence")
	}
	if *replay != "" {
		b, err := os.ReadFile(*replay)
		if err != nil {
			fmt.Fprintln(os.Stderr, err)
			os.Exit(2)
		}
		var rp struct {
			Property   string
			Obligation rules.Obligation
		}
		if err := json.Unmarshal(b, &rp); err != nil {
			fmt.Fprintln(os.Stderr, err)
			os.Exit(2)
		}
		os.Exit(checkProperty(*repo, vdir, *evdir, rp.Property, *tier, true, &rp.Obligation))
	}
	if *property != "" {
		os.Exit(checkProperty(*repo, vdir, *evdir, *property, *tier, *verbose, nil))
	}
	prog, err := core.Load(*repo)
	if err != nil {
		fmt.Fprintln(os.Stderr, err)
		os.Exit(2)
	}
	prog.RegisterFieldOwners()
	if *rule != "" {
		c := rules.NewCtx(prog)
		if *scope != "" {
			c.Scope = map[string]bool{}
			for _, p := range strings.Split(*scope, ",") {
				c.Scope[p] = true
			}
		}
		rules.Get(*rule).Run(c)
		nv := 0
		for _, o := range c.Obls {
			if o.Verdict != rules.Discharged || *verbose {
				fmt.Printf("%-10s %-10s %-60s %s\n    %s\n", o.Verdict, o.Rule, o.Construct, o.Pos, o.Detail)
			}
			if o.Verdict != rules.Discharged {
				nv++
			}
		}
		for _, n := range c.Notes {
			fmt.Println("note:", n)
		}
		fmt.Printf("obligations=%d not-discharged=%d funcs=%d paths=%d\n", len(c.Obls), nv, len(c.FuncsWalked), c.PathsWalked)
		return
	}
	if *dump != "" {
		parts := strings.SplitN(*dump, ":", 2)
		recv, name := "", parts[1]
		if i := strings.Index(name, "."); i >= 0 {
			recv, name = name[:i], name[i+1:]
		}
		fn := prog.LookupFunc(parts[0], recv, name)
		if fn == nil {
			fmt.Fprintln(os.Stderr, "no such function")
			os.Exit(2)
		}
		fl := map[string]bool{}
		for _, f := range strings.Split(*follow, ",") {
			fl[f] = true
		}
		cfg := &core.Config{EmitAccess: *access, Follow: func(c *types.Func) bool { return fl["all"] || fl[c.Name()] }}
		n := 0
		total, err := core.Walk(prog, cfg, core.Entry{Decl: prog.Decl(fn)}, func(p *core.Path) {
			n++
			if n > *maxp {
				return
			}
			fmt.Printf("--- path %d (%s, %d events)\n", n, p.End, len(p.Events))
			for _, ev := range p.Events {
				fmt.Println("  " + prog.DumpEvent(ev))
			}
		})
		fmt.Println("paths:", total, "err:", err)
		return
	}
	flag.Usage()
	os.Exit(2)
}

// checkProperty runs one property check and returns the process exit status.
func checkProperty(repo, vdir, evdir, id, tier string, verbose bool, only *rules.Obligation) int {
	p := props.Table[id]
	if p == nil {
		fmt.Printf("property %s is not claimed by this checker (see MANIFEST.json not_applicable)\n", id)
		return 2
	}
	t0 := time.Now()
	prog, err := core.Load(repo)
	if err != nil {
		// a tree that does not load cannot be judged: that is a failure of the check, never a pass
		fmt.Println(err)
		os.MkdirAll(filepath.Join(evdir, "replay"), 0o755)
		rp := filepath.Join(evdir, "replay", id+"-1.json")
		b, _ := json.MarshalIndent(map[string]interface{}{"property": id, "obligation": rules.Obligation{Rule: "load", Construct: "packages.Load", Verdict: rules.Undecided, Detail: err.Error()}}, "", " ")
		os.WriteFile(rp, b, 0o644)
		fmt.Printf("VIOLATION property=%s replay=%s\n", id, rp)
		return 1
	}
	prog.RegisterFieldOwners()
	loadWall := time.Since(t0).Seconds()
	findings, err := props.LoadFindings(filepath.Join(vdir, "known-findings.json"))
	if err != nil {
		fmt.Println("cannot read known-findings.json:", err)
		return 2
	}
	res := props.Run(prog, p, findings)
	if tier == "thorough" {
		thorough(repo, vdir, prog, p, res)
	}
	if only != nil {
		found := false
		for _, o := range res.Obls {
			if o.Rule == only.Rule && o.Construct == only.Construct {
				found = true
				fmt.Printf("replay: %s %s at %s: %s\n  %s\n", o.Rule, o.Construct, o.Pos, o.Verdict, o.Detail)
				for _, w := range o.Witness {
					fmt.Println("    ", w)
				}
				if o.Verdict != rules.Discharged {
					fmt.Printf("VIOLATION property=%s replay=%s\n", id, "(replayed)")
					return 1
				}
			}
		}
		if !found {
			fmt.Printf("replay: obligation %s %s no longer exists on this tree\n", only.Rule, only.Construct)
		}
		return 0
	}
	replays, err := props.WriteEvidence(evdir, prog, res, tier, loadWall)
	if err != nil {
		fmt.Println("cannot write evidence:", err)
		return 2
	}
	counts := map[string]int{}
	for _, o := range res.Obls {
		counts[string(o.Verdict)]++
	}
	fmt.Printf("%s [%s]: %d obligations: %d discharged, %d violated, %d undecided; %d entries, load %.1fs analysis %.1fs\n", id, tier,
		len(res.Obls), counts["discharged"], counts["violated"], counts["undecided"], len(res.Ctxs), loadWall, res.Wall)
	if verbose {
		obls := append([]*rules.Obligation(nil), res.Obls...)
		sort.SliceStable(obls, func(i, j int) bool { return obls[i].Rule < obls[j].Rule })
		for _, o := range obls {
			fmt.Printf("  %-10s %-9s %-60s %s\n      %s\n", o.Verdict, o.Rule, o.Construct, o.Pos, o.Detail)
		}
	}
	for _, o := range res.Known {
		fmt.Printf("KNOWN-FINDING: property=%s %s %s: %s\n", id, o.Rule, o.Construct, o.Detail)
	}
	for i, o := range res.Violations {
		fmt.Printf("%s %s %s at %s\n    %s\n", strings.ToUpper(string(o.Verdict)), o.Rule, o.Construct, o.Pos, o.Detail)
		for _, w := range o.Witness {
			fmt.Println("      ", w)
		}
		fmt.Printf("VIOLATION property=%s replay=%s\n", id, replays[i])
	}
	if len(res.Violations) > 0 {
		return 1
	}
	return 0
}
