package main

import (
	"flag"
	"fmt"
	"go/types"
	"os"
	"strings"

	"utilverif/internal/core"
)

func main() {
	repo := flag.String("repo", "/repo", "repository root")
	dump := flag.String("dump", "", "debug: dump the paths of pkg:Recv.Func (e.g. csync:Mutex.Lock)")
	follow := flag.String("follow", "", "debug: comma separated function names to inline (or 'all')")
	access := flag.Bool("access", false, "debug: emit access events")
	maxp := flag.Int("n", 5, "debug: number of paths to print")
	flag.Parse()
	prog, err := core.Load(*repo)
	if err != nil {
		fmt.Fprintln(os.Stderr, err)
		os.Exit(2)
	}
	prog.RegisterFieldOwners()
	if *dump != "" {
		parts := strings.SplitN(*dump, ":", 2)
		recv, name := "", parts[1]
		if i := strings.Index(name, "."); i >= 0 {
			recv, name = name[:i], name[i+1:]
		}
		fn := prog.LookupFunc(parts[0], recv, name)
		if fn == nil {
			fmt.Fprintln(os.Stderr, "no such function")
			os.Exit(2)
		}
		fl := map[string]bool{}
		for _, f := range strings.Split(*follow, ",") {
			fl[f] = true
		}
		cfg := &core.Config{EmitAccess: *access, Follow: func(c *types.Func) bool { return fl["all"] || fl[c.Name()] }}
		n := 0
		total, err := core.Walk(prog, cfg, core.Entry{Decl: prog.Decl(fn)}, func(p *core.Path) {
			n++
			if n > *maxp {
				return
			}
			fmt.Printf("--- path %d (%s, %d events)\n", n, p.End, len(p.Events))
			for _, ev := range p.Events {
				fmt.Println("  " + prog.DumpEvent(ev))
			}
		})
		fmt.Println("paths:", total, "err:", err)
	}
}
