package main

import (
	"utilverif/internal/core"
	"utilverif/internal/props"
)

// thorough adds the deeper tier's work to a result (second build configuration, self-test).
func thorough(repo, vdir string, prog *core.Prog, p *props.Property, res *props.Result) {
	// filled in below as the tier is built
}
