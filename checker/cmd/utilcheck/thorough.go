package main

import (
	"encoding/json"
	"fmt"
	"os"
	"os/exec"
	"path/filepath"
	"sort"
	"strings"
	"sync"

	"utilverif/internal/core"
	"utilverif/internal/props"
	"utilverif/internal/rules"
)

// thorough adds the deeper tier's work to a result:
//
//  1. the same property is decided on a second build configuration (GOOS=darwin GOARCH=arm64, which also
//     type-checks files with different build constraints); the obligation sets must be identical;
//  2. the checker's self-test: every seeded property-breaking change recorded for this property
//     (/verif/seeded) is applied to a scratch copy of the CURRENT tree and must be reported; every
//     behaviour-preserving refactor (/verif/silent) must not be. The self-test judges the checker,
//     not /repo: it is reported in the evidence and as SELFTEST lines and never changes the verdict.
func thorough(repo, vdir string, prog *core.Prog, p *props.Property, res *props.Result) {
	// 1. second configuration
	prog2, err := core.Load(repo, "GOOS=darwin", "GOARCH=arm64", "CGO_ENABLED=0")
	if err != nil {
		res.Obls = append(res.Obls, &rules.Obligation{Rule: "config", Construct: "GOOS=darwin GOARCH=arm64/load", Pos: "-", Verdict: rules.Undecided, Detail: err.Error()})
		res.Violations = append(res.Violations, res.Obls[len(res.Obls)-1])
	} else {
		prog2.RegisterFieldOwners()
		findings, _ := props.LoadFindings(filepath.Join(vdir, "known-findings.json"))
		res2 := props.Run(prog2, p, findings)
		key := func(os []*rules.Obligation) map[string]string {
			m := map[string]string{}
			for _, o := range os {
				m[o.Rule+"|"+o.Construct] = string(o.Verdict)
			}
			return m
		}
		a, b := key(res.Obls), key(res2.Obls)
		var diff []string
		for k, v := range a {
			if b[k] != v {
				diff = append(diff, fmt.Sprintf("%s: amd64=%s 386=%s", k, v, b[k]))
			}
		}
		for k, v := range b {
			if _, ok := a[k]; !ok {
				diff = append(diff, fmt.Sprintf("%s: amd64=<absent> 386=%s", k, v))
			}
		}
		sort.Strings(diff)
		res.Extra["second_configuration"] = map[string]interface{}{"env": "GOOS=darwin GOARCH=arm64", "obligations": len(res2.Obls), "differences": diff}
		if len(diff) > 0 {
			o := &rules.Obligation{Rule: "config", Construct: "GOOS=darwin GOARCH=arm64/obligation-set", Pos: "-", Verdict: rules.Undecided,
				Detail: "the obligation set differs between build configurations: " + strings.Join(diff, "; ")}
			res.Obls = append(res.Obls, o)
			res.Violations = append(res.Violations, o)
		}
		fmt.Printf("%s [thorough]: GOOS=darwin GOARCH=arm64: %d obligations, %d differences\n", p.ID, len(res2.Obls), len(diff))
	}
	// 2. self-test
	st := selfTest(repo, vdir, p)
	res.Extra["selftest"] = st
	fmt.Printf("SELFTEST: property=%s killed=%d survived=%d silent_ok=%d silent_alarmed=%d skipped=%d\n", p.ID, len(st.Killed), len(st.Survived), len(st.SilentOK), len(st.SilentAlarmed), len(st.Skipped))
	for _, s := range st.Survived {
		fmt.Printf("SELFTEST: property=%s SURVIVED %s (a seeded change this check does not report)\n", p.ID, s)
	}
	for _, s := range st.SilentAlarmed {
		fmt.Printf("SELFTEST: property=%s FALSE-ALARM %s (a behaviour-preserving change this check reports)\n", p.ID, s)
	}
}

type selfTestResult struct {
	Killed        []string `json:"killed"`
	Survived      []string `json:"survived"`
	SilentOK      []string `json:"silent_ok"`
	SilentAlarmed []string `json:"silent_alarmed"`
	Skipped       []string `json:"skipped"`
	Note          string   `json:"note"`
}

type variant struct {
	name   string
	patch  string
	silent bool
}

func selfTest(repo, vdir string, p *props.Property) *selfTestResult {
	out := &selfTestResult{Note: "each variant is the current working tree of the repository plus one recorded patch, analysed by a child process; kill list = /verif/seeded entries written against this property (known misses are listed in DESIGN.md) plus /verif/killlist/<property>__*.diff (hand-written shape mutants), silent list = /verif/silent (behaviour-preserving refactors touching the property's packages)"}
	var vs []variant
	seeded, _ := filepath.Glob(filepath.Join(vdir, "seeded", "*", "meta.json"))
	sort.Strings(seeded)
	for _, m := range seeded {
		var meta struct {
			Property   string
			Properties []string
		}
		b, err := os.ReadFile(m)
		if err != nil || json.Unmarshal(b, &meta) != nil {
			continue
		}
		mine := meta.Property == p.ID
		for _, q := range meta.Properties {
			if q == p.ID {
				mine = true
			}
		}
		if mine {
			vs = append(vs, variant{name: filepath.Base(filepath.Dir(m)), patch: filepath.Join(filepath.Dir(m), "patch.diff")})
		}
	}
	kl, _ := filepath.Glob(filepath.Join(vdir, "killlist", p.ID+"__*.diff"))
	sort.Strings(kl)
	for _, k := range kl {
		vs = append(vs, variant{name: "killlist/" + strings.TrimSuffix(filepath.Base(k), ".diff"), patch: k})
	}
	pkgs := map[string]bool{}
	for _, s := range p.Sels {
		for _, sc := range s.Scope {
			pkgs[sc] = true
		}
		for _, pre := range s.Prefixes {
			pkgs[strings.SplitN(strings.TrimPrefix(pre, "("), ".", 2)[0]] = true
		}
		for _, pk := range map[string][]string{
			"Gcsync": {"csync"}, "Groutine": {"routine"}, "Gkeyed": {"keyed"}, "Grefcount": {"refcount"},
			"Gpromise": {"promise", "memo"}, "Gccall": {"ccall"}, "Gconc": {"conc"}, "Gccontainer": {"ccontainer"},
			"Gio": {"ioseek", "iosizer", "iocloser", "ioproxy", "unique"}, "Gcodec": {"padding", "commonprefix", "prng"},
			"Gqueue": {"cqueue", "linkedlist"}, "R3": {"routine", "keyed", "refcount"},
		}[s.Run] {
			if s.Scope == nil || s.Run != "R3" {
				pkgs[pk] = true
			}
		}
	}
	silent, _ := filepath.Glob(filepath.Join(vdir, "silent", "*.diff"))
	sort.Strings(silent)
	for _, sp := range silent {
		b, err := os.ReadFile(sp)
		if err != nil {
			continue
		}
		touches := false
		for _, line := range strings.Split(string(b), "\n") {
			if strings.HasPrefix(line, "+++ b/") {
				dir := strings.SplitN(strings.TrimPrefix(line, "+++ b/"), "/", 2)[0]
				if pkgs[dir] || len(pkgs) == 0 {
					touches = true
				}
			}
		}
		if touches {
			vs = append(vs, variant{name: strings.TrimSuffix(filepath.Base(sp), ".diff"), patch: sp, silent: true})
		}
	}
	exe, err := os.Executable()
	if err != nil {
		out.Note += "; cannot locate own executable: " + err.Error()
		return out
	}
	var mu sync.Mutex
	sem := make(chan struct{}, 8)
	var wg sync.WaitGroup
	for _, v := range vs {
		v := v
		wg.Add(1)
		sem <- struct{}{}
		go func() {
			defer wg.Done()
			defer func() { <-sem }()
			verdict := runVariant(exe, repo, vdir, p.ID, v.patch)
			mu.Lock()
			defer mu.Unlock()
			switch {
			case verdict == "skip":
				out.Skipped = append(out.Skipped, v.name)
			case v.silent && verdict == "alarm":
				out.SilentAlarmed = append(out.SilentAlarmed, v.name)
			case v.silent:
				out.SilentOK = append(out.SilentOK, v.name)
			case verdict == "alarm":
				out.Killed = append(out.Killed, v.name)
			default:
				out.Survived = append(out.Survived, v.name)
			}
		}()
	}
	wg.Wait()
	for _, l := range []*[]string{&out.Killed, &out.Survived, &out.SilentOK, &out.SilentAlarmed, &out.Skipped} {
		sort.Strings(*l)
		if *l == nil {
			*l = []string{}
		}
	}
	return out
}

// runVariant copies the working tree (without .git), applies the patch and runs the quick check
// in a child process. Returns "alarm", "quiet" or "skip" (the patch does not apply any more).
func runVariant(exe, repo, vdir, id, patch string) string {
	tmp, err := os.MkdirTemp("", "utilcheck-variant-")
	if err != nil {
		return "skip"
	}
	defer os.RemoveAll(tmp)
	dst := filepath.Join(tmp, "r")
	if err := exec.Command("rsync", "-a", "--exclude", ".git", repo+"/", dst+"/").Run(); err != nil {
		return "skip"
	}
	ap := exec.Command("git", "apply", "--unsafe-paths", "--directory="+dst, patch)
	ap.Dir = tmp
	if err := ap.Run(); err != nil {
		// outside a repository git apply wants to be run in the target directory
		ap2 := exec.Command("git", "apply", patch)
		ap2.Dir = dst
		if err2 := ap2.Run(); err2 != nil {
			return "skip"
		}
	}
	ev := filepath.Join(tmp, "ev")
	cmd := exec.Command(exe, "-repo", dst, "-property", id, "-tier", "quick", "-evidence", ev)
	cmd.Env = append(os.Environ(), "VERIF_DIR="+vdir)
	b, _ := cmd.CombinedOutput()
	if strings.Contains(string(b), "VIOLATION property="+id) {
		return "alarm"
	}
	return "quiet"
}
