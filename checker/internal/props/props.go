// Package props maps properties to rule instances, matches known findings and writes evidence.
package props

import (
	"encoding/json"
	"fmt"
	"os"
	"path/filepath"
	"sort"
	"strconv"
	"strings"
	"time"

	"utilverif/internal/core"
	"utilverif/internal/rules"
)

// Sel selects the obligations of one rule run that belong to a property.
type Sel struct {
	Run      string   // id in the rule registry
	Scope    []string // package scope handed to the rule (nil = rule default)
	Rules    []string // obligation rule ids to keep (prefix match); nil = all
	Prefixes []string // construct prefixes to keep; nil = all
	Contains []string // if set, the construct must contain one of these …
	Topics   []string // … or the obligation's topic must be one of these
	Exclude  []string // constructs containing one of these are dropped
}

// Property is the static check of one property.
type Property struct {
	ID          string
	Title       string
	Sels        []Sel
	Floors      map[string]int // obligation rule id (exact) -> minimum number of obligations
	Explanation string         // what is decided
	NotDecided  string         // what a green run does not mean
	Assumptions []string
	Technique   string
}

// Finding is one entry of known-findings.json.
type Finding struct {
	ID        string `json:"id"`
	Property  string `json:"property"`
	Status    string `json:"status"`
	Commit    string `json:"commit,omitempty"`
	Rule      string `json:"rule"`
	Construct string `json:"construct"`
	What      string `json:"what"`
	Line      string `json:"line,omitempty"`
}

type findingsFile struct {
	Comment  string    `json:"comment"`
	Findings []Finding `json:"findings"`
}

// LoadFindings reads known-findings.json.
func LoadFindings(path string) ([]Finding, error) {
	b, err := os.ReadFile(path)
	if err != nil {
		return nil, err
	}
	var f findingsFile
	if err := json.Unmarshal(b, &f); err != nil {
		return nil, err
	}
	return f.Findings, nil
}

// Result of one property check.
type Result struct {
	Property   *Property
	Obls       []*rules.Obligation
	Violations []*rules.Obligation // not discharged and not a known open finding
	Known      []*rules.Obligation
	Ctxs       []*rules.Ctx
	Wall       float64
	FloorFails []string
	Extra      map[string]interface{}
}

func keep(s Sel, o *rules.Obligation) bool {
	if o.Rule == "anchor-missing" {
		return true
	}
	if s.Rules != nil {
		ok := false
		for _, r := range s.Rules {
			if strings.HasPrefix(o.Rule, r) {
				ok = true
			}
		}
		if !ok {
			return false
		}
	}
	if s.Prefixes != nil {
		ok := false
		for _, p := range s.Prefixes {
			if strings.HasPrefix(o.Construct, p) {
				ok = true
			}
		}
		if !ok {
			return false
		}
	}
	if s.Contains != nil || s.Topics != nil {
		ok := false
		for _, p := range s.Contains {
			if strings.Contains(o.Construct, p) {
				ok = true
			}
		}
		for _, t := range s.Topics {
			if o.Topic == t {
				ok = true
			}
		}
		if !ok {
			return false
		}
	}
	for _, p := range s.Exclude {
		if strings.Contains(o.Construct, p) {
			return false
		}
	}
	return true
}

// Run evaluates a property on a loaded program.
func Run(prog *core.Prog, p *Property, findings []Finding) *Result {
	start := time.Now()
	res := &Result{Property: p, Extra: map[string]interface{}{}}
	seen := map[string]bool{}
	for _, s := range p.Sels {
		r := rules.Get(s.Run)
		if r == nil {
			res.Obls = append(res.Obls, &rules.Obligation{Rule: "internal", Construct: "rule " + s.Run + " not registered", Verdict: rules.Undecided})
			continue
		}
		c := rules.NewCtx(prog)
		if s.Scope != nil {
			c.Scope = map[string]bool{}
			for _, x := range s.Scope {
				c.Scope[x] = true
			}
		}
		func() {
			defer func() {
				if rec := recover(); rec != nil {
					c.Add(&rules.Obligation{Rule: "internal", Construct: s.Run + "/panic", Pos: "-", Verdict: rules.Undecided, Detail: fmt.Sprint("checker panic: ", rec)})
				}
			}()
			r.Run(c)
		}()
		res.Ctxs = append(res.Ctxs, c)
		for _, o := range c.Obls {
			if o.Rule == "internal" || keep(s, o) {
				k := o.Rule + "|" + o.Construct
				if o.Verdict == rules.Discharged && seen[k] {
					continue
				}
				seen[k] = true
				res.Obls = append(res.Obls, o)
			}
		}
	}
	// floors
	counts := map[string]int{}
	for _, o := range res.Obls {
		counts[o.Rule]++
	}
	var fk []string
	for k := range p.Floors {
		fk = append(fk, k)
	}
	sort.Strings(fk)
	for _, k := range fk {
		// The floor guards against a rule that silently stops matching (a vacuous pass). It is not an
		// exact count: a refactor that merges three identical sections into one helper legitimately
		// lowers the number of instances, so the check fires below two thirds of the confirmed count;
		// the individual anchors every row needs are guarded separately (anchor-missing, expect()).
		min := (p.Floors[k]*2 + 2) / 3
		if counts[k] < min {
			msg := fmt.Sprintf("rule %s produced %d obligations for %s, fewer than two thirds (%d) of the %d instances confirmed by hand", k, counts[k], p.ID, min, p.Floors[k])
			res.FloorFails = append(res.FloorFails, msg)
			res.Obls = append(res.Obls, &rules.Obligation{Rule: "instance-floor", Construct: p.ID + "/" + k, Pos: "-", Verdict: rules.Violated, Detail: msg})
		}
	}
	// known findings
	for _, o := range res.Obls {
		if o.Verdict == rules.Discharged {
			continue
		}
		known := false
		if o.Verdict == rules.Violated {
			for _, f := range findings {
				if f.Status == "open" && f.Property == p.ID && f.Rule == o.Rule && f.Construct == o.Construct {
					known = true
				}
			}
		}
		if known {
			res.Known = append(res.Known, o)
		} else {
			res.Violations = append(res.Violations, o)
		}
	}
	res.Wall = time.Since(start).Seconds()
	return res
}

// WriteEvidence writes evidence/<id>.json and the replay files; returns the replay paths of the violations.
func WriteEvidence(dir string, prog *core.Prog, res *Result, tier string, loadWall float64) ([]string, error) {
	p := res.Property
	if err := os.MkdirAll(filepath.Join(dir, "replay"), 0o755); err != nil {
		return nil, err
	}
	// remove stale replay files of this property
	old, _ := filepath.Glob(filepath.Join(dir, "replay", p.ID+"-*.json"))
	for _, f := range old {
		os.Remove(f)
	}
	var replays []string
	for i, o := range res.Violations {
		path := filepath.Join(dir, "replay", fmt.Sprintf("%s-%d.json", p.ID, i+1))
		b, _ := json.MarshalIndent(map[string]interface{}{"property": p.ID, "obligation": o,
			"how_to_replay": "utilcheck -replay " + path + " re-analyses /repo and prints the current verdict of this (rule, construct)"}, "", " ")
		if err := os.WriteFile(path, b, 0o644); err != nil {
			return nil, err
		}
		replays = append(replays, path)
	}
	perRule := map[string]map[string]int{}
	trivial, discharged, nontrivial := 0, 0, 0
	distinct := map[string]bool{}
	for _, o := range res.Obls {
		if perRule[o.Rule] == nil {
			perRule[o.Rule] = map[string]int{}
		}
		perRule[o.Rule][string(o.Verdict)]++
		if o.Verdict == rules.Discharged {
			discharged++
		}
		if o.Trivial {
			trivial++
		} else if !distinct[o.Rule+"|"+o.Construct] {
			distinct[o.Rule+"|"+o.Construct] = true
			nontrivial++
		}
	}
	var samples []interface{}
	// violations first, then a spread of discharged non-trivial obligations
	for _, o := range res.Violations {
		if len(samples) < 10 {
			samples = append(samples, o)
		}
	}
	for _, o := range res.Known {
		if len(samples) < 10 {
			samples = append(samples, o)
		}
	}
	step := 1
	if n := len(res.Obls); n > 10 {
		step = n / 10
	}
	for i := 0; i < len(res.Obls) && len(samples) < 10; i += step {
		if !res.Obls[i].Trivial {
			samples = append(samples, res.Obls[i])
		}
	}
	if len(samples) == 0 && len(res.Obls) > 0 {
		samples = append(samples, res.Obls[0])
	}
	funcs, paths := 0, 0
	var notes []string
	ruleText := map[string]string{}
	maxEntry, maxEntryName := 0, ""
	for _, c := range res.Ctxs {
		funcs += len(c.FuncsWalked)
		paths += c.PathsWalked
		notes = append(notes, c.Notes...)
		if c.MaxEntryPaths > maxEntry {
			maxEntry, maxEntryName = c.MaxEntryPaths, c.MaxEntryName
		}
	}
	var ruleTexts []string
	for _, s := range p.Sels {
		if r := rules.Get(s.Run); r != nil && ruleText[s.Run] == "" {
			ruleText[s.Run] = r.Text
			ruleTexts = append(ruleTexts, r.Text)
		}
	}
	var files []string
	for f := range prog.Files {
		files = append(files, f)
	}
	seed := 0
	if s := os.Getenv("VERIF_SEED"); s != "" {
		seed, _ = strconv.Atoi(s)
	}
	var known []string
	for _, o := range res.Known {
		known = append(known, o.Rule+" "+o.Construct)
	}
	cov := map[string]interface{}{
		"explanation": p.Explanation + " NOT decided by this check: " + p.NotDecided +
			" Method: static analysis of the type-checked source of the repository's current working tree (nothing is executed); every obligation the rules generate from the tree is enumerated and decided; a violated or undecided obligation that is not a listed known finding fails the check.",
		"evaluations":          len(res.Obls),
		"distinct_nontrivial":  nontrivial,
		"rule":                 strings.Join(ruleTexts, "\n") + "\nAn obligation is one (rule, construct) instance generated from the tree; it is non-trivial when its verdict depended on a lockset computation, a path enumeration or a resolved callee (reads of never-written fields and tabled exemptions are counted as trivial).",
		"samples":              samples,
		"exhaustive":           true,
		"obligations":          len(res.Obls),
		"discharged":           discharged,
		"trivial":              trivial,
		"per_rule":             perRule,
		"packages_loaded":      len(prog.Pkgs),
		"files_parsed":         len(files),
		"entries_walked":       funcs,
		"paths_walked":         paths,
		"largest_walk":         fmt.Sprintf("%d paths (%s); cap per entry %d", maxEntry, maxEntryName, 60000),
		"notes":                notes,
		"known_findings":       known,
		"floor_failures":       res.FloorFails,
		"load_wall_s":          loadWall,
		"bounds":               "inlining depth <= 10 declared functions (48 frames), loops unrolled 2 iterations, <= 60000 paths per entry; exceeding a bound yields an undecided obligation, which fails",
		"all_obligations_file": "",
	}
	for k, v := range res.Extra {
		cov[k] = v
	}
	ev := map[string]interface{}{
		"property_id": p.ID,
		"tier":        tier,
		"seed":        seed,
		"level":       "other",
		"coverage":    cov,
		"assumptions": p.Assumptions,
		"wall_s":      res.Wall + loadWall,
		"violations":  len(res.Violations),
	}
	// full obligation list next to the evidence (useful for triage; not required by the schema)
	full := filepath.Join(dir, p.ID+".obligations.json")
	fb, _ := json.MarshalIndent(res.Obls, "", " ")
	if err := os.WriteFile(full, fb, 0o644); err == nil {
		cov["all_obligations_file"] = full
	}
	b, err := json.MarshalIndent(ev, "", " ")
	if err != nil {
		return nil, err
	}
	return replays, os.WriteFile(filepath.Join(dir, p.ID+".json"), b, 0o644)
}
