package props

// Common assumptions (DESIGN.md §2.7).
const (
	A1 = "A1: a method works on one instance of each guarded type; lock identity is the lock-typed field (or local), not the runtime object"
	A2 = "A2: counters guarded by a lock are non-negative"
	A3 = "A3: Go memory model: mutex release/acquire, channel close -> receive and sync/atomic operations synchronise"
	A4 = "A4: user-supplied callbacks are outside the library; calls to them are opaque events"
	A5 = "A5: standard library and third-party callees (context, time.AfterFunc, io, cenkalti/backoff) behave as documented"
)

// ConcurrentPkgs are the packages C13 is anchored in.
var ConcurrentPkgs = []string{"broadcast", "csync", "ccontainer", "ccall", "conc", "cqueue", "linkedlist", "keyed", "routine",
	"refcount", "promise", "memo", "iocloser", "iosizer"}

// NotApplicable gives the reason for each property that is not claimed.
var NotApplicable = map[string]string{}

// Table is the list of claimed properties.
var Table = map[string]*Property{}

func add(p *Property) { Table[p.ID] = p }

const structural = " In the functions of the mechanism's packages no value that is tested against nil at one place is dereferenced at another where no test has shown it non-nil since it was obtained, and no branch on a field is decided by a store the path itself just made (contradiction rules R19/R20: a panic or a dead guard replaces the specified behaviour). This is a structural necessary-condition check: it decides the listed shape conditions on every path of the code that implements the mechanism, not the behavioural statement as a whole."

func init() {
	add(&Property{
		ID: "C01", Title: "csync locks: one writer or many readers, and only between acquire and release",
		Sels: []Sel{
			{Run: "Gcontra", Scope: []string{"csync"}},
			{Run: "Gstale", Scope: []string{"csync"}},
			{Run: "Gcsync", Rules: []string{"R12", "R16"}, Exclude: []string{"writeWaiting", "release-called"}},
			{Run: "R1", Scope: []string{"csync", "broadcast"}, Rules: []string{"R1a", "R1b", "R1d", "R11a"}},
			{Run: "R2", Scope: []string{"csync", "broadcast"}, Rules: []string{"R2d"}, Prefixes: []string{"csync."}},
		},
		Floors:      map[string]int{"R12": 24, "R16": 5, "R1a": 5},
		Explanation: "csync: every grant write (locked/writing = true, nreaders++) is implied, inside its own critical section, by the availability condition the property states; every un-grant write happens only under 'this call's status word was 1' / 'first call of the release function' and in the mode of the grant; Lock/TryLock report success only with status 1 and after a grant write on the same path, and report failure only on paths without a grant; release functions and MutexLocker.Unlock start with an atomic test-and-set; the guarded fields are touched only under the lock (R1a). No position computed from the guarded bookkeeping (a length, an index) in one critical section is used as an index or bound in a later section of the same lock (R1e)." + structural,
		NotDecided:  "fairness, timing, and the one-instance-per-method assumption A1; the exclusion itself is an inductive consequence of these per-path conditions and is not established as a theorem here.",
		Assumptions: []string{A1, A2, A3},
		Technique:   "guarded-effect analysis (path conditions vs required guard, truth tables over canonical atoms) + static lockset",
	})
	add(&Property{
		ID: "C02", Title: "csync locks: grantable waiters are granted, cancelled waiters leave no trace",
		Sels: []Sel{
			{Run: "Gstale", Scope: []string{"csync"}},
			{Run: "Gcontra", Scope: []string{"csync"}},
			{Run: "R2", Scope: []string{"csync", "broadcast"}, Rules: []string{"R2a", "R2b", "R2c", "R2d"}, Prefixes: []string{"csync."}},
			{Run: "Gcsync", Rules: []string{"R12"}, Contains: []string{"writeWaiting", "grant(nreaders++)", "return-failure", "release-called", "ungrant("}},
			{Run: "R17", Scope: []string{"csync"}, Rules: []string{"R17", "R2f"}},
			{Run: "R1", Scope: []string{"csync", "broadcast"}, Rules: []string{"R1a", "R11a"}},
		},
		Floors:      map[string]int{"R2a": 2, "R2b": 10, "R2c": 2, "R12": 9},
		Explanation: "No lost wake-up in Mutex.Lock / RWMutex.Lock: the decision to wait and the wait channel come from one critical section (R2a); every path through a section that can turn a blocked waiter's predicate (Mutex: locked; reader: writing || writeWaiting != 0; writer: nreaders != 0 || writing) into 'grantable' calls broadcast (R2b, truth-table evaluation); no re-sampling without a consumed event (R2c). Writer preference: every read grant is guarded by writeWaiting == 0. No trace: the ctx.Done() arm runs the release closure, returns context.Canceled only there, and writeWaiting++/-- balance on every returning path. The static form of concurrent use: the fields the mechanism uses are accessed only under its lock, and every lock acquired is released on every path (R1a, R11)." + structural,
		NotDecided:  "which waiter wins; that woken goroutines are scheduled; starvation freedom.",
		Assumptions: []string{A1, A2, A3},
		Technique:   "waiter-discipline analysis (sample-and-subscribe, enabling-write-broadcasts truth tables, wake evidence) + guarded effects",
	})
	add(&Property{
		ID: "C03", Title: "broadcast: a waiter never misses a broadcast issued after it sampled the state",
		Sels: []Sel{
			{Run: "Gstale", Scope: []string{"broadcast"}},
			{Run: "Gcontra", Scope: []string{"broadcast"}},
			{Run: "R2", Rules: []string{"R2e"}},
			{Run: "R2", Rules: []string{"R2a", "R2c"}, Prefixes: []string{"broadcast."}},
			{Run: "R2", Rules: []string{"R2d"}},
			{Run: "R1", Scope: []string{"broadcast"}, Rules: []string{"R1a", "R11a", "R11c"}},
			{Run: "R17", Scope: []string{"broadcast"}, Rules: []string{"R17", "R2f"}},
		},
		Floors:      map[string]int{"R2e": 5, "R2d": 40, "R2a": 1, "R2c": 1, "R1a": 1, "R17": 2},
		Explanation: "Inside Broadcast: ch is created, closed and cleared only under mtx (R1a); broadcast closes the current channel and forgets it in the same section, getWaitCh hands out a non-nil channel that is the field the next broadcast closes, and all three HoldLock variants run the callback with the mutex held (R2e, R11a). Wait samples its predicate and subscribes in one section, re-samples only after a received wake-up, returns context.Canceled only after its context fired (R2a, R2c, R17). No section callback in the library lets broadcast/getWaitCh escape its section (R2d, all HoldLock call sites). Wait hands its predicate the broadcast/getWaitCh of the section it runs in." + structural,
		NotDecided:  "behaviour of client predicates; scheduling latency.",
		Assumptions: []string{A3, A4},
		Technique:   "typestate/shape rules on Broadcast + waiter discipline + static lockset",
	})
	add(&Property{
		ID: "C04", Title: "routine: at most one instance of the managed function executes at a time",
		Sels: []Sel{
			{Run: "Groutine", Rules: []string{"R12"}, Contains: []string{"calls-routine-synchronously"}},
			{Run: "Gstale", Scope: []string{"routine"}},
			{Run: "Gcontra", Scope: []string{"routine"}},
			{Run: "R3", Scope: []string{"routine"}, Prefixes: []string{"routine."}},
			{Run: "Groutine", Rules: []string{"R12"}, Contains: []string{"status-writes"}},
			{Run: "Groutine", Rules: []string{"R5b"}},
			{Run: "Groutine", Rules: []string{"R4"}},
			{Run: "R1", Scope: []string{"routine"}, Rules: []string{"R1a", "R11"}, Prefixes: []string{"routine.runningRoutine.", "routine.RoutineContainer.", "routine.(", "all/"}},
		},
		Floors:      map[string]int{"R3a": 2, "R3b": 4, "R3c": 1, "R3d": 2, "R4": 2},
		Explanation: "Exit-channel chain of routine: execute receives from the predecessor's channel before it calls the user function and before it closes its own channel on every path (R3a); start passes a fresh channel, stored in the record in the same section (R3c); every start site forwards a chain value read before it is cleared (R3b); SetRoutine(nil)/no-context paths keep the detached routine's channel for the next start (R3d); predecessors are cancelled before they are superseded (R4); an exiting instance writes the record's status and chain field only while it is the current instance (a superseded instance must not wipe its successor's exit channel), and the retry timer restarts only the record that is still registered (R12 status-writes, R5b). The static form of concurrent use: the fields the mechanism uses are accessed only under its lock, and every lock acquired is released on every path (R1a, R11)." + structural,
		NotDecided:  "that user functions honour cancellation; exit latency.",
		Assumptions: []string{A1, A3, A4},
		Technique:   "exit-channel-chain analysis (must-precede on paths, provenance dataflow of wait channels)",
	})
	add(&Property{
		ID: "C05", Title: "routine: superseded instances are cancelled; survivor has latest context+state",
		Sels: []Sel{
			{Run: "Gstale", Scope: []string{"routine"}},
			{Run: "Gcontra", Scope: []string{"routine"}},
			{Run: "Groutine", Rules: []string{"R4", "R12"}, Contains: []string{"cancel", "derived-context", "current-context", "status-reset", "go-execute", "store-state-before-rebuild", "stored-state-reaches-routine", "closure-captures-copy", "status-writes", "hands-routine", "stores-context", "calls-routine-synchronously", "forgets-only-its-own"}},
			{Run: "Groutine", Rules: []string{"R5b"}},
			{Run: "R1", Scope: []string{"routine"}, Rules: []string{"R1a"}, Prefixes: []string{"routine."}},
			{Run: "R2", Scope: []string{"routine", "broadcast"}, Rules: []string{"R2d"}, Prefixes: []string{"routine."}},
		},
		Floors:      map[string]int{"R4": 3, "R12": 5, "R1a": 12, "R5b": 2},
		Explanation: "Every supersession path cancels the old instance first (slot cleared/overwritten, context changed, new instance spawned); the new instance's context derives from the ctx handed to start, which at every call site is the container's current context; start resets the exit status; the retry timer restarts only a record that is still the registered one, has exited and has a context, under the lock (a superseded routine is not resurrected); all container and record fields, including the state of StateRoutineContainer, are accessed under RoutineContainer.bcast only (R1a) — the static form of 'also under concurrent calls'. An instance whose routine returned calls its own cancel func on every path." + structural,
		NotDecided:  "the quiescent-state claim as a statement over histories; 'most recently stored state' beyond the fact that state and routine are replaced in one critical section.",
		Assumptions: []string{A1, A3, A4},
		Technique:   "cancel-before-supersede must-precede analysis + static lockset",
	})
	add(&Property{
		ID: "C06", Title: "keyed: the key set equals what Set/Remove/Sync/refs asked for, delays included",
		Sels: []Sel{
			{Run: "Gstale", Scope: []string{"keyed"}},
			{Run: "Gcontra", Scope: []string{"keyed"}},
			{Run: "Gmapinit", Scope: []string{"keyed"}},
			{Run: "Gkeyed", Rules: []string{"R6b", "R16"}},
			{Run: "Gkeyed", Rules: []string{"R5b", "R12"}, Contains: []string{"AddKeyRef", "Release", "RemoveKey"}, Topics: []string{"removal"}},
			{Run: "R1", Scope: []string{"keyed"}, Rules: []string{"R1a"}, Prefixes: []string{"keyed.Keyed", "keyed.KeyedRefCount", "keyed.runningRoutine.deferRemove"}},
			{Run: "R1", Scope: []string{"keyed"}, Rules: []string{"R11"}},
		},
		Floors:      map[string]int{"R6b": 2, "R16": 2, "R12": 4, "R5b": 2},
		Explanation: "Necessary conditions only: SetKey and SyncKeys cancel a pending delayed removal of a record they keep; the delayed-removal callback re-validates registration and the pending flag under the lock; remove() deletes at once exactly when there is no delay or the routine failed; AddKeyRef inserts and registers under one lock; Release removes the key exactly when the last reference goes and is idempotent; RemoveKey marks references released; routines/refs are accessed under their mutex. The static form of concurrent use: the fields the mechanism uses are accessed only under its lock, and every lock acquired is released on every path (R1a, R11). SyncKeys scans the slot for removals on every returning path; the map fields are constructed non-nil (R18)." + structural,
		NotDecided:  "that the reported key set and every return value equal the reference model after every history (a statement about values over histories); timer expiry times.",
		Assumptions: []string{A1, A3, A5},
		Technique:   "sibling-agreement and guarded-effect rules on paths",
	})
	add(&Property{
		ID: "C07", Title: "keyed: per key one live routine, cancelled on removal, retried while wanted",
		Sels: []Sel{
			{Run: "Gstale", Scope: []string{"keyed"}},
			{Run: "Gcontra", Scope: []string{"keyed"}},
			{Run: "Gmapinit", Scope: []string{"keyed"}},
			{Run: "R3", Scope: []string{"keyed"}, Prefixes: []string{"keyed."}},
			{Run: "Gkeyed", Rules: []string{"R4", "R5a", "R5c"}},
			{Run: "Gkeyed", Rules: []string{"R5b", "R12"}, Contains: []string{"restart", "go-execute", "start/", "status-writes", "exit-callbacks", "retry-disabled", "backoff-constructed", "stores-context"}},
			{Run: "Gkeyed", Rules: []string{"R5b"}, Topics: []string{"removal"}},
			{Run: "R1", Scope: []string{"keyed"}, Rules: []string{"R1a", "R11"}},
		},
		Floors:      map[string]int{"R3a": 2, "R3b": 6, "R3c": 1, "R3d": 1, "R4": 3, "R5c": 3, "R5b": 2},
		Explanation: "Exit-channel chain for keyed routines (R3a-d); the cancel func of a record is called before the key is deleted, before its slot is overwritten and when the root context changes (R4); the retry timer callback restarts only a still-registered, exited record with a context, and the exit bookkeeping arms the retry exactly when the instance failed while registered with retry configured (R5b/c); no API path stops a retry timer without starting, detaching or re-arming the record (R5a). The static form of concurrent use: the fields the mechanism uses are accessed only under its lock, and every lock acquired is released on every path (R1a, R11). The retry timer restarts exactly when context, registration and exit hold; the retry back-off is reset nowhere but on the exit path of a successful current instance; a recorded success is cleared only inside a forced start." + structural,
		NotDecided:  "retry timing (back-off values); liveness of Go timers.",
		Assumptions: []string{A1, A3, A4, A5},
		Technique:   "exit-channel-chain analysis + timer/cancel obligations on paths",
	})
	add(&Property{
		ID: "C08", Title: "refcount: each resolved value is released exactly once, never exposed afterwards",
		Sels: []Sel{
			{Run: "Gstale", Scope: []string{"refcount"}},
			{Run: "Gcontra", Scope: []string{"refcount"}},
			{Run: "Gmapinit", Scope: []string{"refcount"}},
			{Run: "Grefcount", Rules: []string{"R7", "R16"}},
			{Run: "Grefcount", Rules: []string{"R12"}, Contains: []string{"SetContext", "released#", "handed-back"}, Topics: []string{"last-ref"}},
			{Run: "R1", Scope: []string{"refcount"}, Rules: []string{"R1a"}, Prefixes: []string{"refcount.RefCount"}},
			{Run: "R1", Scope: []string{"refcount"}, Rules: []string{"R11a", "R11c"}},
		},
		Floors:      map[string]int{"R7": 7, "R16": 1, "R12": 2, "R1a": 8},
		Explanation: "Release-function typestate: the resolver's release function is stored only under the current generation together with the result, or called/shown nil (a stale result is released, not stored); valueRel() is always followed by valueRel = nil in the same section and preceded by telling the reference callbacks the value is gone; the generation is bumped in the section that cancels a resolver; removeRef shuts down exactly when the last reference goes and the value is not kept; SetContext restarts exactly when the context changed; Ref.Release is idempotent; all of it under mtx. The static form of concurrent use: the fields the mechanism uses are accessed only under its lock, and every lock acquired is released on every path (R1a, R11)." + structural,
		NotDecided:  "timing ('shortly after'); that the client's release function is itself idempotent.",
		Assumptions: []string{A1, A3, A4},
		Technique:   "typestate rules (store/call/forget ordering, iff-guards) on paths + static lockset",
	})
	add(&Property{
		ID: "C09", Title: "refcount: referenced+context means resolved, by one resolver at a time",
		Sels: []Sel{
			{Run: "Gstale", Scope: []string{"refcount"}},
			{Run: "Gcontra", Scope: []string{"refcount"}},
			{Run: "R3", Scope: []string{"refcount"}, Prefixes: []string{"refcount."}},
			{Run: "Grefcount", Rules: []string{"R6a"}},
			{Run: "Grefcount", Rules: []string{"R12", "R7"}, Contains: []string{"released", "AddRef", "begins-with-shutdown", "generation-bump", "store-result", "error-container", "invalidation/"}},
			{Run: "Grefcount", Rules: []string{"R4"}},
			{Run: "R1", Scope: []string{"refcount", "ccontainer", "promise", "broadcast"}, Rules: []string{"R11"}},
			{Run: "R1", Scope: []string{"refcount"}, Rules: []string{"R1a"}, Prefixes: []string{"refcount.RefCount"}},
		},
		Floors:      map[string]int{"R3a": 2, "R3c": 1, "R6a": 1, "R12": 4},
		Explanation: "One resolver at a time: resolve waits for the previous resolver before it calls the resolver and before it closes its done channel; startResolveLocked hands over a fresh channel and the previous one (R3). released() restarts exactly when the generation is unchanged, under the lock, taken with TryLock or from a goroutine (no re-acquisition of a held lock, acyclic lock order: R11). Late references get the current value under the lock; Ref.cb is nil-tested at every call site (documented nil callback). The static form of concurrent use: the fields the mechanism uses are accessed only under its lock, and every lock acquired is released on every path (R1a, R11). A path that drops a resolved error also empties the error container, or has shown there is none." + structural,
		NotDecided:  "progress as such ('a resolver call is in progress or its result delivered' at quiescent points) — needs histories.",
		Assumptions: []string{A1, A3, A4},
		Technique:   "exit-channel-chain analysis + nil-guard agreement + lock-order/self-deadlock analysis",
	})
	add(&Property{
		ID: "C10", Title: "refcount: consumers get the current value, are cancelled when it is invalidated",
		Sels: []Sel{
			{Run: "Gstale", Scope: []string{"refcount"}},
			{Run: "Gcontra", Scope: []string{"refcount"}},
			{Run: "Grefcount", Rules: []string{"R12", "R13e"}, Contains: []string{"Access", "Wait", "Resolve/", "ResolveWithReleased", "released", "AddRefPromise"}},
			{Run: "Grefcount", Rules: []string{"R7"}, Contains: []string{"begins-with-shutdown", "generation-bump", "store-result", "invalidation/"}},
			{Run: "R2", Scope: []string{"refcount", "broadcast"}, Rules: []string{"R2a", "R2b", "R2c", "R2d"}, Prefixes: []string{"refcount."}},
			{Run: "R2", Scope: []string{"promise", "broadcast"}, Rules: []string{"R2a", "R2b", "R2c"}, Prefixes: []string{"promise.(*PromiseContainer)"}},
			{Run: "R17", Scope: []string{"refcount"}, Rules: []string{"R17", "R2f"}, Prefixes: []string{"refcount.(*RefCount).Access"}},
			{Run: "R1", Scope: []string{"refcount", "promise", "broadcast", "ccontainer"}, Rules: []string{"R1b", "R1c", "R1d"}, Prefixes: []string{"refcount."}},
			{Run: "R1", Scope: []string{"refcount"}, Rules: []string{"R1a", "R11a", "R11c", "R11e"}},
		},
		Floors:      map[string]int{"R12": 9, "R2a": 1, "R2c": 1, "R1b": 7, "R1c": 1},
		Explanation: "Access hands its callback the value sampled together with its subscription, cancels the callback context from a watcher when the wait channel fires (cbCancel deferred), and returns the callback's result only when a generation comparison made under the lock after the callback returned found the generation unchanged; Wait/Resolve/ResolveWithReleased release the reference only on the error path; released() re-resolves exactly when the generation is unchanged, and every restart of the resolution first drops the previous value and bumps the generation (also with no reference left: a kept value must not outlive its invalidation); the locals shared with reference callbacks are protected by the callback-field contract (Ref.cb runs under mtx). The static form of concurrent use: the fields the mechanism uses are accessed only under its lock, and every lock acquired is released on every path (R1a, R11)." + structural,
		NotDecided:  "'promptly'; the sequence-of-values claim; exactly-once firing of the released callback beyond the sync.Once wiring.",
		Assumptions: []string{A1, A3, A4},
		Technique:   "guarded-effect + waiter-discipline analysis + static lockset of shared locals",
	})
	add(&Property{
		ID: "C11", Title: "promise: resolved at most once, every awaiter sees that result and returns",
		Sels: []Sel{
			{Run: "Gstale", Scope: []string{"promise"}},
			{Run: "Gcontra", Scope: []string{"promise"}},
			{Run: "Gpromise", Rules: []string{"R9", "R6a"}},
			{Run: "R2", Scope: []string{"promise", "broadcast"}, Rules: []string{"R2a", "R2b", "R2c", "R2d"}, Prefixes: []string{"promise."}},
			{Run: "R17", Scope: []string{"promise"}, Rules: []string{"R17", "R2f"}, Prefixes: []string{"promise.(*Promise)", "promise.(*PromiseContainer)"}, Exclude: []string{"return-received-error"}},
			{Run: "R1", Scope: []string{"promise"}, Rules: []string{"R1a", "R1d"}, Prefixes: []string{"promise.Promise", "promise.PromiseContainer"}},
		},
		Floors:      map[string]int{"R9": 8, "R2a": 3, "R2b": 2, "R2c": 3, "R1d": 2},
		Explanation: "Promise.SetResult stores the result and closes done only after winning isDone.Swap(true) and returns true exactly there; the result fields are read only behind a receive from done (R1d); each Await* is one blocking select whose done arm alone returns the result; PromiseContainer awaiters sample the promise with their subscription, are woken by every replacement (SetPromise/SetResult broadcast on change), re-sample only after a consumed wake-up — including when the result's error is context.Canceled — and return context.Canceled only when their context fired; every blocking site listens to the context and to the error/cancel channel (R2f); a method is called on the sampled promise only after a nil test of that sample; every function that closes done also sets isDone (pre-resolved promises refuse a later SetResult). An error produced by awaiting the sampled promise is returned with the value of that same await; between the last wait and a successful return the waiter enters the lock once." + structural,
		NotDecided:  "that awaiters are scheduled; CPU time as a quantity; whether a nil value received from an error channel should end an await (the three promise awaiters return it; not claimed either way).",
		Assumptions: []string{A3},
		Technique:   "single-assignment/publication rules + waiter discipline + interruption-source coverage",
	})
	add(&Property{
		ID: "C12", Title: "cqueue/linkedlist: concurrent Push/Pop are linearizable and conserve elements",
		Sels: []Sel{
			{Run: "Gcontra", Scope: []string{"cqueue", "linkedlist"}},
			{Run: "Gqueue", Rules: []string{"R10"}},
			{Run: "R1", Scope: []string{"cqueue", "linkedlist"}, Rules: []string{"R1a", "R11a"}},
		},
		Floors:      map[string]int{"R10": 15, "R1a": 3},
		Explanation: "Only the shape conditions of the standard proofs: AtomicLIFO.Push/Pop load top afresh in every attempt, link/read next from that load in the same iteration, CAS against it, leave only on CAS success (or an empty load) and never write a node after publishing it; every exported LinkedList method is exactly one write-mode critical section containing all its list accesses (one atomic step of the sequential deque). In each attempt Pop finds the node it loaded for that attempt non-nil before it reads next from it." + structural,
		NotDecided:  "linearizability itself, LIFO/FIFO order and element conservation are statements about concurrent histories and are NOT decided by static analysis; a green run certifies the shape conditions without which the Treiber/critical-section arguments do not go through, nothing more.",
		Assumptions: []string{A3},
		Technique:   "lock-free loop shape rule (fresh load / CAS on loaded value / link before CAS) + single-section rule",
	})
	add(&Property{
		ID: "C13", Title: "no data races inside the library under any concurrent use of its concurrent APIs",
		Sels: []Sel{
			{Run: "Groutine", Rules: []string{"R12"}, Contains: []string{"backoff-constructed"}},
			{Run: "Gkeyed", Rules: []string{"R12"}, Contains: []string{"backoff-constructed"}},
			{Run: "Gcontra", Scope: ConcurrentPkgs},
			{Run: "Gstale", Scope: ConcurrentPkgs},
			{Run: "R1", Scope: ConcurrentPkgs, Rules: []string{"R1", "R11a", "R11c"}},
			{Run: "R1ssa", Scope: ConcurrentPkgs, Rules: []string{"R1ssa"}},
			{Run: "Gqueue", Rules: []string{"R10"}, Contains: []string{"no-write-after-publish", "link-to-loaded-top", "next-read-before-cas"}},
			{Run: "R2", Rules: []string{"R2d"}},
		},
		Floors:      map[string]int{"R1a": 60, "R1b": 12, "R1c": 2, "R1d": 4, "R1a-opt": 1, "R1ssa": 2},
		Explanation: "Static lockset analysis (R1) over the 14 packages of the concurrency-safe types: for every struct field and every local captured by an escaping closure, all non-construction accesses reached from any entry point hold a common lock, or the variable is never written, atomic, or published by an atomic election followed by a channel close (R1d); callback fields are invoked under their contract lock (R1c); option callbacks run on freshly constructed containers (R1a-opt); every acquired lock is released on every non-panicking path (R11a). Cross-check (R1ssa): every field-access instruction that go/ssa builds for these packages (generic methods and closures included) is matched by an access R1 analysed in some calling context, so the access set the verdict rests on is complete with respect to the compiler's own IR. No section callback lets broadcast/getWaitCh escape its section (R2d); no position computed from guarded state in one section is used as an index in a later section of the same lock (R1e).",
		NotDecided:  "races on memory the library reaches only through client values of type T; instance confusion excluded by A1; internals of third-party packages; anything in _test.go files.",
		Assumptions: []string{A1, A3, A4, A5},
		Technique:   "static lockset analysis (per-variable consistent lockset, top-down lockset propagation over resolved calls, AST path walker)",
	})
	add(&Property{
		ID: "C14", Title: "routine: exit status, restart rules and backoff follow the documented machine",
		Sels: []Sel{
			{Run: "Gstale", Scope: []string{"routine"}},
			{Run: "Gcontra", Scope: []string{"routine", "backoff"}},
			{Run: "Groutine", Rules: []string{"R12", "R5a", "R5b", "R5c"}},
			{Run: "Gbackoff", Rules: []string{"R12"}},
			{Run: "R2", Scope: []string{"routine", "broadcast"}, Rules: []string{"R2a", "R2b", "R2c"}, Prefixes: []string{"routine."}},
			{Run: "R17", Scope: []string{"routine"}, Rules: []string{"R17", "R2f"}},
			{Run: "R1", Scope: []string{"routine"}, Rules: []string{"R1a"}, Prefixes: []string{"routine.runningRoutine.", "routine.RoutineContainer."}},
		},
		Floors:      map[string]int{"R12": 12, "R5b": 2, "R5c": 3, "R2a": 1, "R2b": 8, "R17": 3, "R1a": 10},
		Explanation: "A nil-returning routine is spawned again only under forceRestart, which is a constant at every call site and true only in restartRoutineLocked and the retry timer; SetContext restarts errored routines only with restart; exit status, exit callbacks and retry arming happen only for the still-current instance (r.ctx == ctx) under the lock; the retry timer is armed exactly when retry is configured, the exit failed, the record is registered and the back-off is not Stop, and success resets the back-off; the timer restarts only a registered, exited record; no API path stops a pending retry without (re)starting, detaching or re-arming. WaitExited samples the current record in its subscribing section, is woken by every status change, and returns an error-channel value only when it is an error. The exit callbacks are handed the value the routine returned (not a field read later); the status fields are accessed under the container lock only (R1a); WithRetry constructs its back-off inside the option, once per container. The retry back-off is reset nowhere in the package but on the exit path of a successful current instance; a recorded success is cleared only inside a start whose forceRestart argument is the constant true, or where the path has shown the flag false (so stop, SetContext and ClearContext cannot make a completed routine runnable again)." + structural,
		NotDecided:  "run counts and the correspondence with a reference state machine over histories; which routine object WaitExited's condition refers to (identity; nil-ness of ctx and routine IS decided by R2b); back-off values.",
		Assumptions: []string{A1, A2, A3, A4, A5},
		Technique:   "guarded-effect analysis with iff-guards, who-may-pass-constant check, waiter discipline",
	})
	add(&Property{
		ID: "C15", Title: "ccontainer: atomic value cell whose waiters return exactly when satisfied",
		Sels: []Sel{
			{Run: "R2", Scope: []string{"broadcast"}, Rules: []string{"R2e"}, Contains: []string{"unlock-deferred"}},
			{Run: "Gstale", Scope: []string{"ccontainer"}},
			{Run: "Gcontra", Scope: []string{"ccontainer"}},
			{Run: "Gccontainer", Rules: []string{"R12"}},
			{Run: "R2", Scope: []string{"ccontainer", "broadcast"}, Rules: []string{"R2a", "R2b", "R2c", "R2d"}, Prefixes: []string{"ccontainer."}},
			{Run: "R17", Scope: []string{"ccontainer", "broadcast"}, Rules: []string{"R17", "R2f"}, Prefixes: []string{"ccontainer."}},
			{Run: "R1", Scope: []string{"ccontainer"}, Rules: []string{"R1a"}},
		},
		Floors:      map[string]int{"R12": 5, "R2a": 1, "R2b": 1, "R2c": 1, "R17": 3, "R1a": 1},
		Explanation: "val is accessed only inside the container's critical sections; SwapValue reads, calls the callback and stores in one section; every store of the cell broadcasts; WaitValueWithValidator validates and returns the value sampled with its subscription, re-samples only after a consumed event, returns the context's error only in the ctx arm and an error-channel value only when it is a non-nil error; the Wait* wrappers delegate to it. Between its last wait and a successful return the waiter enters the lock once (the returned value is the validated sample); SwapValue returns the cell value read in its section or what the callback made of it." + structural,
		NotDecided:  "custom equal functions that are not equivalences; validator side effects.",
		Assumptions: []string{A1, A3, A4},
		Technique:   "waiter discipline + same-section read-modify-write rule + static lockset",
	})
	add(&Property{
		ID: "C16", Title: "Once/MemoizeFunc: one call in flight, success kept forever, failure retried",
		Sels: []Sel{
			{Run: "Gstale", Scope: []string{"promise", "memo"}},
			{Run: "Gcontra", Scope: []string{"promise", "memo"}},
			{Run: "Gpromise", Rules: []string{"R8"}},
			{Run: "R1", Scope: []string{"promise", "memo"}, Rules: []string{"R1a", "R1b", "R1d"}, Prefixes: []string{"promise.Once", "promise.(*Once)", "memo.", "promise.Promise."}},
			{Run: "R17", Scope: []string{"promise"}, Rules: []string{"R17", "R2f"}, Prefixes: []string{"promise.(*Once)", "promise.(*Promise).Await/"}},
			{Run: "R1", Scope: []string{"promise"}, Rules: []string{"R11a", "R11c"}},
		},
		Floors:      map[string]int{"R8": 9, "R1a": 1},
		Explanation: "Once: the callback goroutine is spawned only under o.prom == nil in the section that stores the new promise; o.prom is cleared only by the callback goroutine, under the lock, the identity test and the callback's own non-nil error, after the callback returned; every path of the goroutine completes the promise; every trip around Resolve's loop tests the caller's context, which is the only source of its context.Canceled. MemoizeFunc: fn is called only by the winner of started.Swap(true) with close(done) deferred first; the other callers read the result behind <-done (R1d). The static form of concurrent use: the fields the mechanism uses are accessed only under its lock, and every lock acquired is released on every path (R1a, R11). Every completion of the promise that may carry an error happens after the promise was removed from the Once; Promise.Await, whose error Resolve compares with context.Canceled, returns that literal from its ctx arm." + structural,
		NotDecided:  "'every caller receives that call's result' as a value statement; that the callback terminates.",
		Assumptions: []string{A3, A4},
		Technique:   "single-flight election rules (guards with definition provenance) + publication idiom",
	})
	add(&Property{
		ID: "C17", Title: "ccall: the result is nil only if every function returned nil",
		Sels: []Sel{
			{Run: "Gstale", Scope: []string{"ccall"}},
			{Run: "Gcontra", Scope: []string{"ccall"}},
			{Run: "Gccall"},
			{Run: "R1", Scope: []string{"ccall"}, Rules: []string{"R1b"}},
			{Run: "R2", Scope: []string{"ccall", "broadcast"}, Rules: []string{"R2a", "R2b", "R2c", "R2d"}, Prefixes: []string{"ccall."}},
			{Run: "R17", Scope: []string{"ccall"}, Rules: []string{"R17", "R2f"}},
		},
		Floors:      map[string]int{"R13a": 3, "R12": 3, "R6a": 2, "R1b": 3, "R2a": 1},
		Explanation: "All state shared with the workers (running, exitErr) is accessed under the local Broadcast only — in particular the 'nothing was started' decision (R1b); each worker decrements running exactly once in a section that records the error and broadcasts; a real error replaces nil or context.Canceled and nothing else; each spawn is counted and nil-tested, including the single-function fast path; the waiting loop returns the error it sampled under the lock; the sub-context's cancel is deferred before anything runs; context.Canceled is returned only from the ctx.Done() arm. The waiting loop returns while functions still run only for an error that is neither nil nor context.Canceled." + structural,
		NotDecided:  "which of several errors is returned.",
		Assumptions: []string{A3, A4},
		Technique:   "balance/exactly-once rules + iff-guard on the error merge + static lockset of shared locals",
	})
	add(&Property{
		ID: "C18", Title: "conc queue: bounded parallelism, every job exactly once, idle means done",
		Sels: []Sel{
			{Run: "Gstale", Scope: []string{"conc", "linkedlist"}},
			{Run: "Gcontra", Scope: []string{"conc", "linkedlist"}},
			{Run: "Gconc"},
			{Run: "R2", Scope: []string{"conc", "broadcast"}, Rules: []string{"R2a", "R2b", "R2c", "R2d"}, Prefixes: []string{"conc."}},
			{Run: "R17", Scope: []string{"conc"}, Rules: []string{"R17", "R2f"}, Prefixes: []string{"conc.(*ConcurrentQueue).WaitIdle"}},
			{Run: "R1", Scope: []string{"conc", "linkedlist"}, Rules: []string{"R1a"}},
			{Run: "Gqueue", Rules: []string{"R10"}, Prefixes: []string{"linkedlist."}},
		},
		Floors:      map[string]int{"R12": 5, "R13b": 1, "R2a": 2, "R2b": 5, "R17": 3, "R1a": 4},
		Explanation: "A worker is spawned (running++) exactly under 'unlimited or running < limit', decided in the section that spawns; each enqueued job goes to exactly one of worker/queue with the matching counter; a worker retires only when the Pop made in the same section failed; WaitIdle samples 'idle' with its subscription, every path that can make running == 0 && queued == 0 true broadcasts (one frozen, justified exception), WaitIdle returns nil only when idle was sampled and an error-channel value only when it is a non-nil error; counters are accessed under the lock only. The job queue is the linked list: its methods are single write-mode sections that keep head and tail in agreement and link only fresh or listed elements (R10)." + structural,
		NotDecided:  "the invariant 'queued > 0 only if running = limit' as such (an inductive invariant over counter values); enqueue order for n = 1 beyond the FIFO wiring; WatchState's optional errCh (it is not listened to; outside the property).",
		Assumptions: []string{A1, A2, A3},
		Technique:   "guarded-effect analysis (iff on the concurrency limit), one-sink-per-job balance, waiter discipline",
	})
	add(&Property{
		ID: "C19", Title: "byte/string codecs: padding round-trips, prefix is longest, prng is reproducible",
		Sels:        []Sel{{Run: "Gcodec"}},
		Floors:      map[string]int{"R14a": 1, "R14b": 1, "R14c": 5},
		Explanation: "Three panic/encoding/effect conditions only: UnpadInPlace indexes data[len(data)-1] only after excluding empty input and slices by the padding length only after comparing it with len(data); commonprefix never converts a byte/integer with string(b); in prng no nondeterministic source or package-level state is reachable, the reader's state is written only by Read, and a new word is drawn from the source only when the buffered word is used up.",
		NotDecided:  "VALUE SEMANTICS ARE NOT DECIDED: that PadInPlace's length is a positive multiple of 32 and round-trips through UnpadInPlace, that Prefix is the longest common prefix, and that the prng stream is independent of read chunking are statements about computed values; a green run does not mean the codecs are correct.",
		Assumptions: []string{A5},
		Technique:   "index-before-length-guard lint, byte-to-string conversion lint, effect/reachability rule",
	})
	add(&Property{
		ID: "C20", Title: "sequential helpers match their reference models on every operation sequence",
		Sels: []Sel{
			{Run: "Gstale", Scope: []string{"iocloser", "unique"}},
			{Run: "Gcontra", Scope: []string{"iocloser", "ioproxy", "ioseek", "iosizer", "unique"}},
			{Run: "Gcontra", Scope: []string{"padding", "commonprefix", "prng"}},
			{Run: "Gio"},
			{Run: "R1", Scope: []string{"iocloser"}, Rules: []string{"R1a", "R11a"}},
			{Run: "Gmapinit", Scope: []string{"unique"}},
		},
		Floors:      map[string]int{"R15": 20, "R13c": 3, "R1a": 4, "R18": 4},
		Explanation: "Shape conditions: ioseek stores a new offset exactly when it is in range and never before an error return, Read advances by the returned count on every path; iosizer adds exactly the positive count it returns; iocloser.Close detaches stream and close function under the lock on every path and calls the saved function outside it under a nil test, Read/Write use the stream only under the lock after a nil test; ioproxy starts two swapped pumps, each closing both ends and calling back once; unique performs per input value exactly one store/delete with one matching notification, or none after the comparison/absence test. The map fields of unique's containers are constructed non-nil on every path (R18).",
		NotDecided:  "VALUE SEMANTICS ARE NOT DECIDED: equivalence with a section reader, byte order through io.CopyBuffer, replay equality of notifications, 'latest set that differed'.",
		Assumptions: []string{A5},
		Technique:   "per-path shape rules (iff-guards, must-assign, exactly-once sinks)",
	})
}
