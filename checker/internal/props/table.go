package props

// Common assumptions (DESIGN.md §2.7).
const (
	A1 = "A1: a method works on one instance of each guarded type; lock identity is the lock-typed field (or local), not the runtime object"
	A2 = "A2: counters guarded by a lock are non-negative"
	A3 = "A3: Go memory model: mutex release/acquire, channel close -> receive and sync/atomic operations synchronise"
	A4 = "A4: user-supplied callbacks are outside the library; calls to them are opaque events"
	A5 = "A5: standard library and third-party callees (context, time.AfterFunc, io, cenkalti/backoff) behave as documented"
)

// ConcurrentPkgs are the packages C13 is anchored in.
var ConcurrentPkgs = []string{"broadcast", "csync", "ccontainer", "ccall", "conc", "cqueue", "linkedlist", "keyed", "routine",
	"refcount", "promise", "memo", "iocloser", "iosizer"}

// NotApplicable gives the reason for each property that is not claimed.
var NotApplicable = map[string]string{}

// Table is the list of claimed properties.
var Table = map[string]*Property{}

func add(p *Property) { Table[p.ID] = p }

func init() {
	add(&Property{
		ID:          "C13",
		Title:       "no data races inside the library under any concurrent use of its concurrent APIs",
		Sels:        []Sel{{Run: "R1", Scope: ConcurrentPkgs, Rules: []string{"R1", "R11a", "R11c"}}},
		Floors:      map[string]int{"R1a": 60, "R1b": 12, "R1c": 2, "R1d": 4, "R1a-opt": 1},
		Explanation: "Static lockset analysis (R1) over the 14 packages of the concurrency-safe types: for every struct field and every local captured by an escaping closure, all non-construction accesses reached from any entry point hold a common lock, or the variable is never written, atomic, or published by an atomic election followed by a channel close (R1d); callback fields are invoked under their contract lock (R1c); option callbacks run on freshly constructed containers (R1a-opt); every acquired lock is released on every non-panicking path (R11a).",
		NotDecided:  "races on memory the library reaches only through client values of type T; instance confusion excluded by A1; internals of third-party packages; anything in _test.go files.",
		Assumptions: []string{A1, A3, A4, A5},
		Technique:   "static lockset analysis (per-variable consistent lockset, top-down lockset propagation over resolved calls, AST path walker)",
	})
}
