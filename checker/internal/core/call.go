package core

import (
	"go/ast"
	"go/token"
	"go/types"
)

func (w *walker) call(call *ast.CallExpr, st *state, k func(*state, Value)) {
	fr := st.fr()
	info := fr.Info()
	fun := unparen(call.Fun)
	// explicit instantiation f[T](...)
	switch ix := fun.(type) {
	case *ast.IndexExpr:
		if tv, ok := info.Types[ix.Index]; ok && tv.IsType() {
			fun = unparen(ix.X)
		}
	case *ast.IndexListExpr:
		fun = unparen(ix.X)
	}
	// conversion
	if tv, ok := info.Types[fun]; ok && tv.IsType() {
		w.exprs(call.Args, st, func(st *state, vals []Value) {
			v := Value{}
			if len(vals) == 1 && vals[0].Kind == VInt {
				v = vals[0]
			}
			k(st, v)
		})
		return
	}
	if id, ok := fun.(*ast.Ident); ok {
		if b, ok := info.Uses[id].(*types.Builtin); ok {
			w.builtin(b.Name(), call, st, k)
			return
		}
	}
	if lit, ok := fun.(*ast.FuncLit); ok {
		w.exprs(call.Args, st, func(st *state, args []Value) {
			w.inlineLit(lit, fr, call, args, nil, st, k)
		})
		return
	}
	w.funExpr(fun, st, func(st *state, fv Value) {
		w.exprs(call.Args, st, func(st *state, args []Value) {
			w.dispatch(call, fun, fv, args, st, k)
		})
	})
}

// funExpr evaluates the function position of a call.
func (w *walker) funExpr(fun ast.Expr, st *state, k func(*state, Value)) {
	fr := st.fr()
	info := fr.Info()
	switch f := fun.(type) {
	case *ast.Ident:
		switch o := w.identObj(f, fr).(type) {
		case *types.Var:
			st = st.clone()
			w.access(st, o, false, nil, f)
			v, _ := st.env.lookup(o)
			if v.Kind == VAlias {
				v = Value{}
			}
			k(st, v)
			return
		case *types.Func:
			k(st, Value{Kind: VFunc, Fn: o.Origin()})
			return
		}
	case *ast.SelectorExpr:
		if sel, ok := info.Selections[f]; ok && sel.Kind() == types.MethodVal {
			w.expr(f.X, st, func(st *state, _ Value) {
				k(st, Value{Kind: VMethodVal, Fn: sel.Obj().(*types.Func).Origin(), Recv: f.X, RecvF: fr})
			})
			return
		}
	}
	w.expr(fun, st, k)
}

func (w *walker) dispatch(call *ast.CallExpr, fun ast.Expr, fv Value, args []Value, st *state, k func(*state, Value)) {
	switch fv.Kind {
	case VFuncLit:
		w.inlineLit(fv.Lit, fv.LitFr, call, args, nil, st, k)
		return
	case VBroadcast:
		st = st.clone()
		w.emit(st, &Event{Kind: KBroadcast, Pos: call.Pos(), Node: call, Call: call, Lock: fv.Lock})
		k(st, Value{})
		return
	case VGetWaitCh:
		st = st.clone()
		w.emit(st, &Event{Kind: KGetWaitCh, Pos: call.Pos(), Node: call, Call: call, Lock: fv.Lock})
		k(st, Value{})
		return
	case VMethodVal, VFunc:
		w.callFunc(fv, call, args, st, k)
		return
	}
	w.opaque(call, fv, args, st, k)
}

func (w *walker) opaque(call *ast.CallExpr, fv Value, args []Value, st *state, k func(*state, Value)) {
	st = st.clone()
	ev := &Event{Kind: KCall, Pos: call.Pos(), Node: call, Call: call, FunVal: fv, ArgVals: args}
	ev.Callee = w.staticCallee(call, st.fr())
	if ev.Callee == nil && fv.Fn != nil {
		ev.Callee = fv.Fn
	}
	w.emit(st, ev)
	st.lastVals, st.lastReturn = nil, nil
	k(st, Value{})
}

// lockVar resolves the lock variable denoted by a receiver expression.
func (w *walker) lockVar(recv ast.Expr, fr *Frame, st *state) (*types.Var, string) {
	if fr == nil {
		return nil, ""
	}
	info := fr.Info()
	e := unparen(recv)
	if u, ok := e.(*ast.UnaryExpr); ok && u.Op == token.AND {
		e = unparen(u.X)
	}
	switch x := e.(type) {
	case *ast.Ident:
		if v, ok := w.identObj(x, fr).(*types.Var); ok {
			if av, ok := st.env.lookup(v); ok && av.Kind == VAlias {
				if o, ok := av.Obj.(*types.Var); ok {
					return o, ""
				}
			}
			return v, ""
		}
	case *ast.SelectorExpr:
		if sel, ok := info.Selections[x]; ok {
			if v, ok := sel.Obj().(*types.Var); ok {
				return v.Origin(), ExprString(x.X)
			}
		}
	}
	return nil, ""
}

func (st *state) holds(v *types.Var) int {
	for i, h := range st.locks {
		if h.Var == v {
			return i
		}
	}
	return -1
}

func (w *walker) acquire(st *state, v *types.Var, base string, read, try bool, call *ast.CallExpr) {
	re := st.holds(v) >= 0
	st.locks = append(append([]Held(nil), st.locks...), Held{Var: v, Base: base, Read: read, Pos: call.Pos()})
	st.facts = &fact{prev: st.facts, killShrd: true}
	ev := &Event{Kind: KAcquire, Pos: call.Pos(), Node: call, Call: call, Lock: v, LockTry: try}
	if re {
		ev.Int = 1 // re-acquired while held
	}
	if read {
		ev.Int |= 2
	}
	w.emit(st, ev)
}

func (w *walker) release(st *state, v *types.Var, call *ast.CallExpr) {
	i := -1
	for j := len(st.locks) - 1; j >= 0; j-- {
		if st.locks[j].Var == v {
			i = j
			break
		}
	}
	ev := &Event{Kind: KRelease, Pos: call.Pos(), Node: call, Call: call, Lock: v}
	if i < 0 {
		ev.Int = 1 // released while not held
	}
	w.emit(st, ev) // Locks = set before the release
	if i >= 0 {
		nl := append([]Held(nil), st.locks[:i]...)
		st.locks = append(nl, st.locks[i+1:]...)
	}
	st.facts = &fact{prev: st.facts, killShrd: true}
}

// Reacquired reports an acquire of a lock already held on the path.
func (e *Event) Reacquired() bool { return e.Kind == KAcquire && e.Int&1 != 0 }

// NotHeld reports a release of a lock not held on the path.
func (e *Event) NotHeld() bool { return e.Kind == KRelease && e.Int&1 != 0 }

// callFunc handles a call whose callee is statically known.
func (w *walker) callFunc(fv Value, call *ast.CallExpr, args []Value, st *state, k func(*state, Value)) {
	callee := fv.Fn
	pkg := ""
	if callee.Pkg() != nil {
		pkg = callee.Pkg().Path()
	}
	recvNamed := RecvNamed(callee)
	recvName := ""
	if recvNamed != nil {
		recvName = recvNamed.Obj().Name()
	}
	// interface method: dynamic
	if recvNamed != nil {
		if _, isIface := recvNamed.Underlying().(*types.Interface); isIface {
			w.opaque(call, fv, args, st, k)
			return
		}
	} else if sig, ok := callee.Type().(*types.Signature); ok && sig.Recv() != nil {
		w.opaque(call, fv, args, st, k) // method of an unnamed/interface receiver
		return
	}
	switch {
	case pkg == "sync" && (recvName == "Mutex" || recvName == "RWMutex"):
		lv, base := w.lockVar(fv.Recv, fv.RecvF, st)
		if lv == nil {
			panic(&Undecided{Reason: w.posf("lock operation on an unresolved lock expression %s", call.Pos(), ExprString(fv.Recv))})
		}
		switch callee.Name() {
		case "Lock", "RLock":
			st = st.clone()
			w.acquire(st, lv, base, callee.Name() == "RLock", false, call)
			k(st, Value{})
		case "Unlock", "RUnlock":
			st = st.clone()
			w.release(st, lv, call)
			k(st, Value{})
		case "TryLock", "TryRLock":
			ok := st.clone()
			w.acquire(ok, lv, base, callee.Name() == "TryRLock", true, call)
			k(ok, Value{Kind: VBool, Bool: true})
			k(st.clone(), Value{Kind: VBool, Bool: false})
		default:
			w.opaque(call, fv, args, st, k)
		}
		return
	case pkg == ModPath+"/broadcast" && recvName == "Broadcast":
		argIdx := -1
		switch callee.Name() {
		case "HoldLock", "TryHoldLock", "HoldLockMaybeAsync":
			argIdx = 0
		case "Wait":
			argIdx = 1
		}
		if argIdx >= 0 && argIdx < len(args) && args[argIdx].Kind == VFuncLit {
			lv, base := w.lockVar(fv.Recv, fv.RecvF, st)
			if lv == nil {
				panic(&Undecided{Reason: w.posf("HoldLock on an unresolved Broadcast expression %s", call.Pos(), ExprString(fv.Recv))})
			}
			lit := args[argIdx]
			run := func(st *state, result Value) {
				st = st.clone()
				w.acquire(st, lv, base, false, callee.Name() == "TryHoldLock", call)
				w.inlineLit(lit.Lit, lit.LitFr, call, nil, lv, st, func(st *state, _ Value) {
					st = st.clone()
					w.release(st, lv, call)
					st.lastVals, st.lastReturn = nil, nil
					k(st, result)
				})
			}
			switch callee.Name() {
			case "TryHoldLock":
				run(st, Value{Kind: VBool, Bool: true})
				k(st.clone(), Value{Kind: VBool, Bool: false})
			default:
				run(st, Value{})
			}
			return
		}
	case pkg == "sync/atomic" && recvNamed != nil:
		if w.atomicOp(fv, call, args, st, k) {
			return
		}
	}
	if decl := w.prog.Decl(callee); decl != nil && (w.cfg.Follow != nil && w.cfg.Follow(callee) || w.cfg.FollowCtx != nil && w.cfg.FollowCtx(callee, st.locks)) {
		if st.fr().Depth >= w.cfg.MaxDepth {
			panic(&Undecided{Reason: w.posf("inlining bound %d exceeded calling %s", call.Pos(), w.cfg.MaxDepth, FuncName(callee))})
		}
		w.inlineFunc(decl, fv, call, args, st, k)
		return
	}
	w.opaque(call, fv, args, st, k)
}

// atomicOp models Load/Store/Swap/CompareAndSwap/Add on a private local of atomic type.
func (w *walker) atomicOp(fv Value, call *ast.CallExpr, args []Value, st *state, k func(*state, Value)) bool {
	if fv.RecvF == nil {
		return false
	}
	id, ok := unparen(fv.Recv).(*ast.Ident)
	if !ok {
		return false
	}
	obj := w.identObj(id, fv.RecvF)
	if obj == nil || w.isShared(obj) {
		return false
	}
	cur, known := st.env.lookup(obj)
	if !known {
		return false
	}
	same := func(a, b Value) (bool, bool) {
		if a.Kind == VInt && b.Kind == VInt {
			return a.Int == b.Int, true
		}
		if a.Kind == VBool && b.Kind == VBool {
			return a.Bool == b.Bool, true
		}
		return false, false
	}
	isConst := func(v Value) bool { return v.Kind == VInt || v.Kind == VBool }
	st = st.clone()
	ev := &Event{Kind: KCall, Pos: call.Pos(), Node: call, Call: call, FunVal: fv, Callee: fv.Fn}
	w.emit(st, ev)
	st.lastVals, st.lastReturn = nil, nil
	bind := func(v Value) {
		if !isConst(v) {
			v = Value{}
		}
		st.env = st.env.bind(obj, v)
	}
	switch fv.Fn.Name() {
	case "Load":
		if isConst(cur) {
			k(st, cur)
		} else {
			k(st, Value{})
		}
	case "Store":
		bind(args[0])
		k(st, Value{})
	case "Swap":
		bind(args[0])
		if isConst(cur) {
			k(st, cur)
		} else {
			k(st, Value{})
		}
	case "CompareAndSwap":
		if eq, ok := same(cur, args[0]); ok {
			if eq {
				bind(args[1])
			}
			k(st, Value{Kind: VBool, Bool: eq})
		} else {
			st.env = st.env.bind(obj, Value{})
			k(st, Value{})
		}
	case "Add":
		if cur.Kind == VInt && args[0].Kind == VInt {
			nv := Value{Kind: VInt, Int: cur.Int + args[0].Int}
			bind(nv)
			k(st, nv)
		} else {
			st.env = st.env.bind(obj, Value{})
			k(st, Value{})
		}
	default:
		k(st, Value{})
	}
	return true
}

const maxFrames = 48

func (w *walker) bindParams(ft *ast.FuncType, recv *ast.FieldList, fr *Frame, call *ast.CallExpr, callerFr *Frame,
	recvExpr ast.Expr, recvFr *Frame, args []Value, cs *types.Var, st *state) {
	info := fr.Info()
	bindAlias := func(obj types.Object, argExpr ast.Expr, afr *Frame, val Value) {
		if val.Kind != VUnknown && val.Kind != VNonNil {
			st.env = st.env.bind(obj, val)
			return
		}
		if afr != nil && argExpr != nil {
			if id, ok := unparen(argExpr).(*ast.Ident); ok {
				if v, ok := w.identObj(id, afr).(*types.Var); ok {
					ki := keyInfo{pure: true}
					key := w.exprKey(id, afr, st, &ki)
					target := types.Object(v)
					if av, ok := st.env.lookup(v); ok && av.Kind == VAlias {
						target = av.Obj
					}
					st.env = st.env.bind(obj, Value{Kind: VAlias, Key: key, Obj: target})
					return
				}
			}
		}
		st.env = st.env.bind(obj, Value{})
	}
	if recv != nil && len(recv.List) == 1 && len(recv.List[0].Names) == 1 {
		if obj := info.Defs[recv.List[0].Names[0]]; obj != nil {
			bindAlias(obj, recvExpr, recvFr, Value{})
		}
	}
	i := 0
	variadic := false
	if n := len(ft.Params.List); n > 0 {
		_, variadic = ft.Params.List[n-1].Type.(*ast.Ellipsis)
	}
	nparams := ft.Params.NumFields()
	for _, f := range ft.Params.List {
		for _, name := range f.Names {
			obj := info.Defs[name]
			isLast := i == nparams-1
			switch {
			case obj == nil:
			case cs != nil && i == 0:
				st.env = st.env.bind(obj, Value{Kind: VBroadcast, Lock: cs})
			case cs != nil && i == 1:
				st.env = st.env.bind(obj, Value{Kind: VGetWaitCh, Lock: cs})
			case variadic && isLast:
				st.env = st.env.bind(obj, Value{})
			case call != nil && i < len(args) && i < len(call.Args):
				bindAlias(obj, call.Args[i], callerFr, args[i])
			default:
				st.env = st.env.bind(obj, Value{})
			}
			i++
		}
		if len(f.Names) == 0 {
			i++
		}
	}
	// named results start at their zero value
	if ft.Results != nil {
		for _, f := range ft.Results.List {
			for _, name := range f.Names {
				if obj := info.Defs[name]; obj != nil {
					zv := Value{}
					if !w.isShared(obj) {
						zv = w.zeroValue(obj.Type())
					}
					st.env = st.env.bind(obj, zv)
				}
			}
		}
	}
}

func (w *walker) enter(fr *Frame, call *ast.CallExpr, st *state, k func(*state, Value)) {
	w.nFrames++
	fr.ID = w.nFrames
	n := 0
	for p := fr.Parent; p != nil; p = p.Parent {
		n++
		if p.Fn != nil && p.Fn == fr.Fn || p.Lit != nil && p.Lit == fr.Lit {
			panic(&Undecided{Reason: w.posf("recursive inlining of %s", call.Pos(), fr.Name())})
		}
	}
	if n > maxFrames {
		panic(&Undecided{Reason: w.posf("more than %d nested frames", call.Pos(), maxFrames)})
	}
	pos := token.NoPos
	if call != nil {
		pos = call.Pos()
	}
	w.emit(st, &Event{Kind: KEnter, Pos: pos, Node: call, Call: call, Inner: fr, Callee: fr.Fn, Frame: fr.Parent})
	ctlDepth := len(st.ctls)
	nframes := len(st.frames)
	fs := &frameState{fr: fr, ctlDepth: ctlDepth}
	fs.ret = func(st *state) {
		st = st.clone()
		st.frames = st.frames[:nframes]
		st.ctls = st.ctls[:ctlDepth]
		vals, ret := st.lastVals, st.lastReturn
		w.emit(st, &Event{Kind: KExit, Pos: pos, Node: call, Call: call, Inner: fr, Callee: fr.Fn, Frame: fr.Parent})
		v := Value{}
		if len(vals) == 1 {
			v = vals[0]
		}
		st.lastVals, st.lastReturn = vals, ret
		k(st, v)
	}
	st.frames = append(append([]*frameState(nil), st.frames...), fs)
	w.block(fr.Body().List, st, func(st *state) { w.doReturn(st, nil) })
}

func (w *walker) inlineLit(lit *ast.FuncLit, defFr *Frame, call *ast.CallExpr, args []Value, cs *types.Var, st *state, k func(*state, Value)) {
	caller := st.fr()
	if defFr == nil {
		defFr = caller
	}
	fr := &Frame{Parent: caller, Lit: lit, Pkg: defFr.Pkg, Call: call, Depth: caller.Depth, CS: cs, Deferred: st.inDefer > 0}
	st = st.clone()
	w.bindParams(lit.Type, nil, fr, call, caller, nil, nil, args, cs, st)
	w.enter(fr, call, st, k)
}

func (w *walker) inlineFunc(decl *FuncDecl, fv Value, call *ast.CallExpr, args []Value, st *state, k func(*state, Value)) {
	caller := st.fr()
	fr := &Frame{Parent: caller, Fn: decl.Obj, Decl: decl.Decl, Pkg: decl.Pkg, Call: call, Depth: caller.Depth + 1, Deferred: st.inDefer > 0}
	st = st.clone()
	w.bindParams(decl.Decl.Type, decl.Decl.Recv, fr, call, caller, fv.Recv, fv.RecvF, args, nil, st)
	w.enter(fr, call, st, k)
}

func (w *walker) builtin(name string, call *ast.CallExpr, st *state, k func(*state, Value)) {
	w.exprs(call.Args, st, func(st *state, args []Value) {
		st = st.clone()
		switch name {
		case "close":
			w.emit(st, &Event{Kind: KClose, Pos: call.Pos(), Node: call, Call: call, Chan: call.Args[0]})
			k(st, Value{})
		case "panic":
			w.emit(st, &Event{Kind: KPanic, Pos: call.Pos(), Node: call, Call: call})
			w.finish(st, EndPanic)
		case "delete":
			fr := st.fr()
			if v, base := w.lhsVar(call.Args[0], fr); v != nil {
				w.access(st, v, true, base, call.Args[0])
			}
			w.killFactsFor(call.Args[0], fr, st)
			w.emit(st, &Event{Kind: KCall, Pos: call.Pos(), Node: call, Call: call, Builtin: name})
			k(st, Value{})
		default:
			w.emit(st, &Event{Kind: KCall, Pos: call.Pos(), Node: call, Call: call, Builtin: name})
			k(st, Value{})
		}
	})
}
