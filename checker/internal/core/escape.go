package core

import (
	"go/ast"
	"go/types"

	"golang.org/x/tools/go/types/typeutil"
)

// IsHoldLockCall reports a call of the Broadcast HoldLock family and the index of its callback argument.
func IsHoldLockCall(info *types.Info, call *ast.CallExpr) (string, int) {
	f, ok := typeutil.Callee(info, call).(*types.Func)
	if !ok || f.Pkg() == nil || f.Pkg().Path() != ModPath+"/broadcast" {
		return "", -1
	}
	n := RecvNamed(f)
	if n == nil || n.Obj().Name() != "Broadcast" {
		return "", -1
	}
	switch f.Name() {
	case "HoldLock", "TryHoldLock", "HoldLockMaybeAsync":
		return f.Name(), 0
	case "Wait":
		return f.Name(), 1
	}
	return "", -1
}

// LitEscape classifies the function literals of a declared function.
type LitEscape int

const (
	EscNone  LitEscape = iota // called in place, deferred, HoldLock callback, or bound to a local that is only called
	EscLate                   // only returned to the caller
	EscEarly                  // go, passed to another function, stored, sent
)

// EscapeInfo is the result of the closure-escape analysis of one declared function.
type EscapeInfo struct {
	Esc      map[*ast.FuncLit]LitEscape
	Shared   map[types.Object]bool           // locals captured by an early-escaping literal
	Bound    map[types.Object][]*ast.FuncLit // local variable -> literals assigned to it
	Captured map[*ast.FuncLit][]*types.Var   // literal -> locals of the enclosing function it uses
}

var escCache = map[*FuncDecl]*EscapeInfo{}

// EscapesOf returns the (cached) escape analysis of decl.
func EscapesOf(prog *Prog, decl *FuncDecl) *EscapeInfo {
	if e, ok := escCache[decl]; ok {
		return e
	}
	e := escapes(prog, decl)
	escCache[decl] = e
	return e
}

// Escapes classifies every literal of decl and returns the locals captured by early-escaping ones.
func Escapes(prog *Prog, decl *FuncDecl) (map[*ast.FuncLit]LitEscape, map[types.Object]bool) {
	e := EscapesOf(prog, decl)
	return e.Esc, e.Shared
}

func escapes(prog *Prog, decl *FuncDecl) *EscapeInfo {
	info := decl.Pkg.TypesInfo
	esc := map[*ast.FuncLit]LitEscape{}
	// local variable -> literals bound to it
	bound := map[types.Object][]*ast.FuncLit{}
	varEsc := map[types.Object]LitEscape{}
	raise := func(m map[types.Object]LitEscape, o types.Object, e LitEscape) {
		if m[o] < e {
			m[o] = e
		}
	}
	var stack []ast.Node
	ast.Inspect(decl.Decl, func(n ast.Node) bool {
		if n == nil {
			stack = stack[:len(stack)-1]
			return true
		}
		parent := ast.Node(nil)
		if len(stack) > 0 {
			parent = stack[len(stack)-1]
		}
		var grand ast.Node
		if len(stack) > 1 {
			grand = stack[len(stack)-2]
		}
		stack = append(stack, n)
		classify := func(self ast.Expr) LitEscape {
			// skip parens
			switch p := parent.(type) {
			case *ast.CallExpr:
				if unparen(p.Fun) == self {
					if _, isGo := grand.(*ast.GoStmt); isGo {
						return EscEarly
					}
					return EscNone
				}
				if _, idx := IsHoldLockCall(info, p); idx >= 0 && idx < len(p.Args) && unparen(p.Args[idx]) == self {
					return EscNone
				}
				return EscEarly
			case *ast.ReturnStmt:
				return EscLate
			case *ast.AssignStmt, *ast.ValueSpec:
				return -1 // handled by caller
			}
			return EscEarly
		}
		switch x := n.(type) {
		case *ast.FuncLit:
			e := classify(x)
			if e == -1 {
				// bound to a local?
				var lhs []ast.Expr
				var rhs []ast.Expr
				switch p := parent.(type) {
				case *ast.AssignStmt:
					lhs, rhs = p.Lhs, p.Rhs
				case *ast.ValueSpec:
					for _, nm := range p.Names {
						lhs = append(lhs, nm)
					}
					rhs = p.Values
				}
				e = EscEarly
				if len(lhs) == len(rhs) {
					for i := range rhs {
						if unparen(rhs[i]) == ast.Expr(x) {
							if id, ok := unparen(lhs[i]).(*ast.Ident); ok {
								obj := info.Defs[id]
								if obj == nil {
									obj = info.Uses[id]
								}
								if v, ok := obj.(*types.Var); ok && !v.IsField() && v.Parent() != v.Pkg().Scope() {
									bound[obj] = append(bound[obj], x)
									e = EscNone
								}
							}
						}
					}
				}
			}
			if esc[x] < e {
				esc[x] = e
			}
		case *ast.Ident:
			obj := info.Uses[x]
			if obj == nil {
				return true
			}
			if sig, ok := obj.Type().Underlying().(*types.Signature); !ok || sig == nil {
				return true
			}
			if _, isVar := obj.(*types.Var); !isVar {
				return true
			}
			// a use of a func-typed local: how?
			switch p := parent.(type) {
			case *ast.AssignStmt:
				for _, l := range p.Lhs {
					if unparen(l) == ast.Expr(x) {
						return true // being assigned
					}
				}
				raise(varEsc, obj, EscEarly)
			default:
				e := classify(x)
				if e == -1 {
					e = EscEarly
				}
				raise(varEsc, obj, e)
			}
		}
		return true
	})
	for obj, lits := range bound {
		for _, l := range lits {
			if esc[l] < varEsc[obj] {
				esc[l] = varEsc[obj]
			}
		}
	}
	// propagate: a literal referenced (through its local) from an early literal is early; nested
	// literals inherit at least the escape of the enclosing one
	changed := true
	for changed {
		changed = false
		for lit, e := range esc {
			if e == EscNone {
				continue
			}
			ast.Inspect(lit.Body, func(n ast.Node) bool {
				switch x := n.(type) {
				case *ast.Ident:
					if obj := info.Uses[x]; obj != nil {
						for _, l := range bound[obj] {
							if esc[l] < e {
								esc[l] = e
								changed = true
							}
						}
					}
				case *ast.FuncLit:
					if esc[x] < e && e == EscEarly {
						// a literal created inside an early literal runs in that context; its own
						// escape class stays, but what it captures from outside is shared too
					}
				}
				return true
			})
		}
	}
	shared := map[types.Object]bool{}
	captured := map[*ast.FuncLit][]*types.Var{}
	for lit, e := range esc {
		seen := map[*types.Var]bool{}
		ast.Inspect(lit.Body, func(n ast.Node) bool {
			id, ok := n.(*ast.Ident)
			if !ok {
				return true
			}
			obj, ok := info.Uses[id].(*types.Var)
			if !ok || obj.IsField() {
				return true
			}
			// declared inside the enclosing function but outside this literal
			if obj.Pos() >= decl.Decl.Pos() && obj.Pos() < decl.Decl.End() && !(obj.Pos() >= lit.Pos() && obj.Pos() < lit.End()) {
				if !seen[obj] {
					seen[obj] = true
					captured[lit] = append(captured[lit], obj)
				}
				if e == EscEarly {
					shared[obj] = true
				}
			}
			return true
		})
	}
	return &EscapeInfo{Esc: esc, Shared: shared, Bound: bound, Captured: captured}
}

var sharedCache = map[*FuncDecl]map[types.Object]bool{}

// SharedLocals returns the locals of decl captured by a closure that escapes before decl returns.
func SharedLocals(prog *Prog, decl *FuncDecl) map[types.Object]bool {
	if s, ok := sharedCache[decl]; ok {
		return s
	}
	s := EscapesOf(prog, decl).Shared
	sharedCache[decl] = s
	return s
}
