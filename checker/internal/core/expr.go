package core

import (
	"fmt"
	"go/ast"
	"go/constant"
	"go/token"
	"go/types"

	"golang.org/x/tools/go/types/typeutil"
)

func (w *walker) exprs(list []ast.Expr, st *state, k func(*state, []Value)) {
	var step func(st *state, i int, vals []Value)
	step = func(st *state, i int, vals []Value) {
		if i == len(list) {
			k(st, vals)
			return
		}
		w.expr(list[i], st, func(st *state, v Value) {
			nv := make([]Value, len(vals)+1)
			copy(nv, vals)
			nv[len(vals)] = v
			step(st, i+1, nv)
		})
	}
	step(st, 0, nil)
}

func (w *walker) access(st *state, v *types.Var, write bool, base ast.Expr, node ast.Node) {
	if !w.cfg.EmitAccess || v == nil {
		return
	}
	w.emit(st, &Event{Kind: KAccess, Pos: node.Pos(), Node: node, Var: v.Origin(), Write: write, Base: base})
}

func constValue(tv types.TypeAndValue) Value {
	if tv.Value == nil {
		return Value{}
	}
	switch tv.Value.Kind() {
	case constant.Bool:
		return Value{Kind: VBool, Bool: constant.BoolVal(tv.Value)}
	case constant.Int:
		if i, ok := constant.Int64Val(tv.Value); ok {
			return Value{Kind: VInt, Int: i}
		}
	}
	return Value{}
}

func (w *walker) identObj(id *ast.Ident, fr *Frame) types.Object {
	info := fr.Info()
	if o := info.Uses[id]; o != nil {
		return o
	}
	return info.Defs[id]
}

func (w *walker) expr(e ast.Expr, st *state, k func(*state, Value)) {
	if e == nil {
		k(st, Value{})
		return
	}
	fr := st.fr()
	info := fr.Info()
	if tv, ok := info.Types[e]; ok && tv.Value != nil {
		if _, isCall := e.(*ast.CallExpr); !isCall {
			k(st, constValue(tv))
			return
		}
	}
	switch e := e.(type) {
	case *ast.ParenExpr:
		w.expr(e.X, st, k)
	case *ast.BasicLit:
		k(st, constValue(info.Types[e]))
	case *ast.Ident:
		switch o := w.identObj(e, fr).(type) {
		case *types.Nil:
			k(st, Value{Kind: VNil})
		case *types.Var:
			st = st.clone()
			w.access(st, o, false, nil, e)
			if v, ok := st.env.lookup(o); ok && v.Kind != VAlias && v.Kind != VUnknown {
				k(st, v)
				return
			}
			// a boolean whose value was decided by a branch on this path (and not assigned since)
			if b, isB := o.Type().Underlying().(*types.Basic); isB && b.Info()&types.IsBoolean != 0 {
				ki, neg := w.atomKey(e, fr, st)
				if pv, known := st.facts.lookup(ki); known {
					k(st, Value{Kind: VBool, Bool: pv != neg})
					return
				}
			}
			k(st, Value{})
		case *types.Func:
			k(st, Value{Kind: VFunc, Fn: o.Origin()})
		default:
			k(st, Value{})
		}
	case *ast.FuncLit:
		st = st.clone()
		w.emit(st, &Event{Kind: KFuncLitVal, Pos: e.Pos(), Node: e, Val: Value{Kind: VFuncLit, Lit: e, LitFr: fr}})
		k(st, Value{Kind: VFuncLit, Lit: e, LitFr: fr})
	case *ast.SelectorExpr:
		if sel, ok := info.Selections[e]; ok {
			switch sel.Kind() {
			case types.FieldVal:
				w.expr(e.X, st, func(st *state, _ Value) {
					st = st.clone()
					w.access(st, sel.Obj().(*types.Var), false, e.X, e)
					k(st, Value{})
				})
			case types.MethodVal:
				w.expr(e.X, st, func(st *state, _ Value) {
					v := Value{Kind: VMethodVal, Fn: sel.Obj().(*types.Func).Origin(), Recv: e.X, RecvF: fr}
					st = st.clone()
					w.emit(st, &Event{Kind: KFuncLitVal, Pos: e.Pos(), Node: e, Val: v})
					k(st, v)
				})
			default:
				k(st, Value{})
			}
			return
		}
		switch o := info.Uses[e.Sel].(type) {
		case *types.Var:
			st = st.clone()
			w.access(st, o, false, nil, e)
			k(st, Value{})
		case *types.Func:
			k(st, Value{Kind: VFunc, Fn: o.Origin()})
		default:
			k(st, Value{})
		}
	case *ast.CallExpr:
		w.call(e, st, k)
	case *ast.UnaryExpr:
		w.expr(e.X, st, func(st *state, v Value) {
			switch e.Op {
			case token.ARROW:
				st = st.clone()
				w.emit(st, &Event{Kind: KRecv, Pos: e.Pos(), Node: e, Chan: e.X})
				k(st, Value{})
			case token.NOT:
				if v.Kind == VBool {
					k(st, Value{Kind: VBool, Bool: !v.Bool})
				} else {
					k(st, Value{})
				}
			case token.SUB:
				if v.Kind == VInt {
					k(st, Value{Kind: VInt, Int: -v.Int})
				} else {
					k(st, Value{})
				}
			default:
				k(st, Value{})
			}
		})
	case *ast.BinaryExpr:
		if (e.Op == token.LAND || e.Op == token.LOR) && containsCall(e.Y) {
			w.cond(e, st, func(st *state) { k(st, Value{Kind: VBool, Bool: true}) },
				func(st *state) { k(st, Value{Kind: VBool, Bool: false}) })
			return
		}
		w.expr(e.X, st, func(st *state, x Value) {
			w.expr(e.Y, st, func(st *state, y Value) {
				k(st, foldBinary(e.Op, x, y))
			})
		})
	case *ast.StarExpr:
		w.expr(e.X, st, func(st *state, _ Value) { k(st, Value{}) })
	case *ast.IndexExpr:
		if tv, ok := info.Types[e.Index]; ok && tv.IsType() {
			w.expr(e.X, st, k)
			return
		}
		w.expr(e.X, st, func(st *state, _ Value) {
			w.expr(e.Index, st, func(st *state, _ Value) { k(st, Value{}) })
		})
	case *ast.IndexListExpr:
		w.expr(e.X, st, k)
	case *ast.SliceExpr:
		w.exprs([]ast.Expr{e.X, e.Low, e.High, e.Max}, st, func(st *state, _ []Value) { k(st, Value{}) })
	case *ast.TypeAssertExpr:
		w.expr(e.X, st, func(st *state, _ Value) { k(st, Value{}) })
	case *ast.CompositeLit:
		var elts []ast.Expr
		var fields []*ast.Ident // parallel to elts: the struct field initialised, or nil
		_, isStruct := info.TypeOf(e).Underlying().(*types.Struct)
		for _, el := range e.Elts {
			if kv, ok := el.(*ast.KeyValueExpr); ok {
				id, isField := kv.Key.(*ast.Ident)
				if !isField || !isStruct {
					elts = append(elts, kv.Key)
					fields = append(fields, nil)
					id = nil
				}
				elts = append(elts, kv.Value)
				fields = append(fields, id)
			} else {
				elts = append(elts, el)
				fields = append(fields, nil)
			}
		}
		w.exprs(elts, st, func(st *state, vals []Value) {
			st = st.clone()
			for i, id := range fields {
				if id == nil {
					continue
				}
				if fv, ok := info.Uses[id].(*types.Var); ok && fv.IsField() {
					w.emit(st, &Event{Kind: KAssign, Pos: id.Pos(), Node: e, Lhs: id, Rhs: elts[i], RhsIdx: -1, Tok: token.DEFINE,
						Var: fv.Origin(), Val: vals[i], FieldInit: true})
				}
			}
			k(st, Value{})
		})
	case *ast.KeyValueExpr:
		w.expr(e.Value, st, k)
	default:
		k(st, Value{})
	}
}

func containsCall(e ast.Expr) bool {
	found := false
	ast.Inspect(e, func(n ast.Node) bool {
		switch n.(type) {
		case *ast.CallExpr:
			found = true
		case *ast.FuncLit:
			return false
		}
		if u, ok := n.(*ast.UnaryExpr); ok && u.Op == token.ARROW {
			found = true
		}
		return !found
	})
	return found
}

func isNonNilVal(v Value) bool {
	switch v.Kind {
	case VFuncLit, VBroadcast, VGetWaitCh, VMethodVal, VFunc, VNonNil:
		return true
	}
	return false
}

func foldBinary(op token.Token, x, y Value) Value {
	b := func(v bool) Value { return Value{Kind: VBool, Bool: v} }
	switch {
	case x.Kind == VInt && y.Kind == VInt:
		switch op {
		case token.EQL:
			return b(x.Int == y.Int)
		case token.NEQ:
			return b(x.Int != y.Int)
		case token.LSS:
			return b(x.Int < y.Int)
		case token.LEQ:
			return b(x.Int <= y.Int)
		case token.GTR:
			return b(x.Int > y.Int)
		case token.GEQ:
			return b(x.Int >= y.Int)
		case token.ADD:
			return Value{Kind: VInt, Int: x.Int + y.Int}
		case token.SUB:
			return Value{Kind: VInt, Int: x.Int - y.Int}
		}
	case x.Kind == VBool && y.Kind == VBool:
		switch op {
		case token.EQL:
			return b(x.Bool == y.Bool)
		case token.NEQ:
			return b(x.Bool != y.Bool)
		case token.LAND:
			return b(x.Bool && y.Bool)
		case token.LOR:
			return b(x.Bool || y.Bool)
		}
	case x.Kind == VBool && (op == token.LAND && !x.Bool || op == token.LOR && x.Bool):
		return x
	case y.Kind == VBool && (op == token.LAND && !y.Bool || op == token.LOR && y.Bool):
		return y
	case x.Kind == VNil && y.Kind == VNil:
		if op == token.EQL {
			return b(true)
		} else if op == token.NEQ {
			return b(false)
		}
	case x.Kind == VNil && isNonNilVal(y), y.Kind == VNil && isNonNilVal(x):
		if op == token.EQL {
			return b(false)
		} else if op == token.NEQ {
			return b(true)
		}
	}
	return Value{}
}

// ---------------------------------------------------------------------------------------------
// conditions

func (w *walker) cond(e ast.Expr, st *state, kt, kf func(*state)) {
	switch x := unparen(e).(type) {
	case *ast.UnaryExpr:
		if x.Op == token.NOT {
			w.cond(x.X, st, kf, kt)
			return
		}
	case *ast.BinaryExpr:
		if x.Op == token.LAND {
			w.cond(x.X, st, func(st *state) { w.cond(x.Y, st, kt, kf) }, kf)
			return
		}
		if x.Op == token.LOR {
			w.cond(x.X, st, kt, func(st *state) { w.cond(x.Y, st, kt, kf) })
			return
		}
	}
	e = unparen(e)
	w.expr(e, st, func(st *state, v Value) {
		fr := st.fr()
		ki, neg := w.atomKey(e, fr, st)
		byStore := false
		take := func(st *state, val bool, forced bool) {
			st = st.clone()
			ev := &Event{Kind: KBranch, Pos: e.Pos(), Node: e, Cond: e, CondVal: val, CondKey: ki.key}
			if forced {
				ev.Int = 1
			}
			if forced && byStore {
				ev.Int |= 4
			}
			if neg {
				ev.Int |= 2
			}
			w.emit(st, ev)
			if !forced && !(ki.shared && len(st.locks) == 0 && !w.cfg.SharedFacts) {
				w.setFact(st, ki, val != neg)
			}
			if val {
				kt(st)
			} else {
				kf(st)
			}
		}
		if v.Kind == VBool {
			// decided by the values the path bound (a local assigned a constant, a constant argument):
			// not a compile-time constant of the source
			if tv, isC := fr.Info().Types[e]; !isC || tv.Value == nil {
				byStore = true
			}
			take(st, v.Bool, true)
			return
		}
		if pv, ok, fromStore := st.facts.lookupSrc(ki); ok {
			byStore = fromStore
			take(st, pv != neg, true)
			return
		}
		take(st, true, false)
		take(st, false, false)
	})
}

// Forced reports whether a branch event was decided by a constant or an earlier decision.
func (e *Event) Forced() bool { return e.Kind == KBranch && e.Int&1 != 0 }

// ForcedByStore reports whether a branch event was decided by a value the path itself assigned (or
// bound) before it, rather than by an earlier branch decision or a compile-time constant.
func (e *Event) ForcedByStore() bool { return e.Kind == KBranch && e.Int&4 != 0 }

// ---------------------------------------------------------------------------------------------
// assignments

func (w *walker) lhsReads(lhs ast.Expr, st *state, k func(*state)) {
	switch x := unparen(lhs).(type) {
	case *ast.SelectorExpr:
		if _, ok := st.fr().Info().Selections[x]; ok {
			w.expr(x.X, st, func(st *state, _ Value) { k(st) })
			return
		}
		k(st)
	case *ast.IndexExpr:
		w.expr(x.X, st, func(st *state, _ Value) {
			w.expr(x.Index, st, func(st *state, _ Value) { k(st) })
		})
	case *ast.StarExpr:
		w.expr(x.X, st, func(st *state, _ Value) { k(st) })
	default:
		k(st)
	}
}

// lhsVar resolves the variable written by an assignment target (the field for x.f, the root
// container for m[k] and *p).
func (w *walker) lhsVar(lhs ast.Expr, fr *Frame) (*types.Var, ast.Expr) {
	info := fr.Info()
	for {
		switch x := unparen(lhs).(type) {
		case *ast.Ident:
			if x.Name == "_" {
				return nil, nil
			}
			v, _ := w.identObj(x, fr).(*types.Var)
			return v, nil
		case *ast.SelectorExpr:
			if sel, ok := info.Selections[x]; ok {
				if v, ok := sel.Obj().(*types.Var); ok {
					return v.Origin(), x.X
				}
				return nil, nil
			}
			v, _ := info.Uses[x.Sel].(*types.Var)
			return v, nil
		case *ast.IndexExpr:
			lhs = x.X
		case *ast.StarExpr:
			lhs = x.X
		case *ast.SliceExpr:
			lhs = x.X
		default:
			return nil, nil
		}
	}
}

func (w *walker) isNonNilExpr(e ast.Expr, fr *Frame) bool {
	info := fr.Info()
	switch x := unparen(e).(type) {
	case *ast.CompositeLit, *ast.FuncLit:
		return true
	case *ast.UnaryExpr:
		if x.Op == token.AND {
			return true
		}
	case *ast.CallExpr:
		if id, ok := unparen(x.Fun).(*ast.Ident); ok {
			if b, ok := info.Uses[id].(*types.Builtin); ok && (b.Name() == "make" || b.Name() == "new") {
				return true
			}
		}
		if f, ok := typeutil.Callee(info, x).(*types.Func); ok && f.Pkg() != nil {
			switch f.Pkg().Path() + "." + f.Name() {
			case "errors.New", "fmt.Errorf", "github.com/pkg/errors.New", "github.com/pkg/errors.Errorf":
				return true
			}
		}
	case *ast.SelectorExpr:
		if v, ok := info.Uses[x.Sel].(*types.Var); ok && v.Pkg() != nil && !InModule(v) && v.Parent() == v.Pkg().Scope() {
			if types.Identical(v.Type(), types.Universe.Lookup("error").Type()) {
				return true // stdlib error sentinel (context.Canceled, io.EOF)
			}
		}
	}
	return false
}

// store performs one assignment lhs = (val, rhs).
func (w *walker) store(lhs ast.Expr, val Value, node ast.Node, rhs ast.Expr, idx int, tok token.Token, st *state, k func(*state)) {
	w.lhsReads(lhs, st, func(st *state) {
		st = st.clone()
		fr := st.fr()
		v, base := w.lhsVar(lhs, fr)
		if v != nil {
			w.access(st, v, true, base, lhs)
		}
		w.killFactsFor(lhs, fr, st)
		if id, ok := unparen(lhs).(*ast.Ident); ok && id.Name != "_" {
			if obj := w.identObj(id, fr); obj != nil {
				bv := val
				if w.isShared(obj) && !(val.Kind == VFuncLit && w.isBoundOnce(obj)) || tok != token.ASSIGN && tok != token.DEFINE || val.Kind == VNonNil {
					bv = Value{}
				}
				st.env = st.env.bind(obj, bv)
			}
		}
		// facts from the assigned value
		if tok == token.ASSIGN || tok == token.DEFINE {
			ki := keyInfo{pure: true}
			key := w.exprKey(lhs, fr, st, &ki)
			if ki.pure && !(ki.shared && len(st.locks) == 0 && !w.cfg.SharedFacts) {
				switch {
				case val.Kind == VBool:
					ki.key = key
					w.setStoreFact(st, ki, val.Bool)
				case val.Kind == VNil:
					ki.key = "(" + key + " == nil)"
					w.setStoreFact(st, ki, true)
				case isNonNilVal(val) || rhs != nil && idx < 0 && w.isNonNilExpr(rhs, fr):
					ki.key = "(" + key + " == nil)"
					w.setStoreFact(st, ki, false)
				}
			}
		}
		w.emit(st, &Event{Kind: KAssign, Pos: lhs.Pos(), Node: node, Lhs: lhs, Rhs: rhs, RhsIdx: idx, Tok: tok, Define: tok == token.DEFINE, Val: val, Var: v})
		k(st)
	})
}

func (w *walker) assign(s *ast.AssignStmt, st *state, k func(*state)) {
	if len(s.Rhs) == 1 && len(s.Lhs) > 1 {
		w.expr(s.Rhs[0], st, func(st *state, _ Value) {
			var vals []Value
			if _, ok := unparen(s.Rhs[0]).(*ast.CallExpr); ok && len(st.lastVals) == len(s.Lhs) && st.lastReturn != nil && st.lastReturn == lastReturnOf(st) {
				vals = st.lastVals
			}
			ret := st.lastReturn
			var step func(st *state, i int)
			step = func(st *state, i int) {
				if i == len(s.Lhs) {
					k(st)
					return
				}
				v := Value{}
				if vals != nil {
					v = vals[i]
				}
				w.store(s.Lhs[i], v, s, s.Rhs[0], i, s.Tok, st, func(st *state) {
					if vals != nil {
						st.last.RetEv = ret
					}
					step(st, i+1)
				})
			}
			step(st, 0)
		})
		return
	}
	w.exprs(s.Rhs, st, func(st *state, vals []Value) {
		var step func(st *state, i int)
		step = func(st *state, i int) {
			if i == len(s.Lhs) {
				k(st)
				return
			}
			v := vals[i]
			after := func(st *state) { step(st, i+1) }
			if s.Tok != token.ASSIGN && s.Tok != token.DEFINE {
				// compound assignment reads the target too
				w.expr(s.Lhs[i], st, func(st *state, _ Value) {
					w.store(s.Lhs[i], Value{}, s, s.Rhs[i], -1, s.Tok, st, after)
				})
				return
			}
			var ret *Event
			if _, isCall := unparen(s.Rhs[i]).(*ast.CallExpr); isCall && len(s.Rhs) == 1 {
				ret = lastReturnOf(st)
			}
			w.store(s.Lhs[i], v, s, s.Rhs[i], -1, s.Tok, st, func(st *state) {
				if ret != nil {
					st.last.RetEv = ret
				}
				after(st)
			})
		}
		step(st, 0)
	})
}

// lastReturnOf returns the return event of the most recent inlined call if no other event but
// its exit happened since (so the values in st.lastVals belong to the call just evaluated).
func lastReturnOf(st *state) *Event {
	for e := st.last; e != nil; e = e.prev {
		switch e.Kind {
		case KExit, KRelease:
			continue
		case KReturn:
			return e
		default:
			if e.IsDeferred() {
				continue
			}
			return nil
		}
	}
	return nil
}

func (w *walker) incdec(s *ast.IncDecStmt, st *state, k func(*state)) {
	w.expr(s.X, st, func(st *state, v Value) {
		st = st.clone()
		fr := st.fr()
		vr, base := w.lhsVar(s.X, fr)
		if vr != nil {
			w.access(st, vr, true, base, s.X)
		}
		w.killFactsFor(s.X, fr, st)
		if id, ok := unparen(s.X).(*ast.Ident); ok {
			if obj := w.identObj(id, fr); obj != nil {
				nv := Value{}
				if v.Kind == VInt && !w.isShared(obj) {
					nv = Value{Kind: VInt, Int: v.Int + 1}
					if s.Tok == token.DEC {
						nv.Int = v.Int - 1
					}
				}
				st.env = st.env.bind(obj, nv)
			}
		}
		w.emit(st, &Event{Kind: KIncDec, Pos: s.Pos(), Node: s, Lhs: s.X, Tok: s.Tok})
		k(st)
	})
}

func (w *walker) zeroValue(t types.Type) Value {
	if IsAtomicType(t) {
		if n, ok := t.(*types.Named); ok {
			switch n.Obj().Name() {
			case "Bool":
				return Value{Kind: VBool}
			case "Int32", "Int64", "Uint32", "Uint64":
				return Value{Kind: VInt}
			}
		}
		return Value{}
	}
	switch u := t.Underlying().(type) {
	case *types.Basic:
		if u.Info()&types.IsBoolean != 0 {
			return Value{Kind: VBool}
		}
		if u.Info()&types.IsInteger != 0 {
			return Value{Kind: VInt}
		}
	case *types.Pointer, *types.Chan, *types.Map, *types.Slice, *types.Signature, *types.Interface:
		if _, isTP := t.(*types.TypeParam); !isTP {
			return Value{Kind: VNil}
		}
	}
	return Value{}
}

func (w *walker) declStmt(s *ast.DeclStmt, st *state, k func(*state)) {
	gd, ok := s.Decl.(*ast.GenDecl)
	if !ok || gd.Tok != token.VAR {
		k(st)
		return
	}
	var specs []*ast.ValueSpec
	for _, sp := range gd.Specs {
		specs = append(specs, sp.(*ast.ValueSpec))
	}
	var step func(st *state, i int)
	step = func(st *state, i int) {
		if i == len(specs) {
			k(st)
			return
		}
		sp := specs[i]
		if len(sp.Values) == 0 {
			st = st.clone()
			fr := st.fr()
			for _, name := range sp.Names {
				obj := fr.Info().Defs[name]
				if obj == nil {
					continue
				}
				zv := Value{}
				if !w.isShared(obj) {
					zv = w.zeroValue(obj.Type())
				}
				st.env = st.env.bind(obj, zv)
				if v, ok := obj.(*types.Var); ok {
					w.access(st, v, true, nil, name)
				}
				w.emit(st, &Event{Kind: KAssign, Pos: name.Pos(), Node: s, Lhs: name, RhsIdx: -1, Tok: token.DEFINE, Define: true})
			}
			step(st, i+1)
			return
		}
		lhs := make([]ast.Expr, len(sp.Names))
		for j, n := range sp.Names {
			lhs[j] = n
		}
		w.assign(&ast.AssignStmt{Lhs: lhs, Tok: token.DEFINE, Rhs: sp.Values, TokPos: sp.Pos()}, st, func(st *state) { step(st, i+1) })
	}
	step(st, 0)
}

// ---------------------------------------------------------------------------------------------

func (w *walker) staticCallee(call *ast.CallExpr, fr *Frame) *types.Func {
	f, _ := typeutil.Callee(fr.Info(), call).(*types.Func)
	if f == nil {
		return nil
	}
	return f.Origin()
}

func (w *walker) posf(format string, pos token.Pos, args ...interface{}) string {
	return fmt.Sprintf(format, args...) + " at " + w.prog.Pos(pos)
}
