package core

import (
	"fmt"
	"go/ast"
	"go/token"
	"go/types"
	"strings"
)

// fact is a persistent list of decided atoms and invalidations.
type fact struct {
	prev     *fact
	key      string
	val      bool
	killObj  types.Object // tombstone: facts mentioning this object are void
	killShrd bool         // tombstone: facts mentioning a field or shared local are void
	store    bool         // the fact comes from an assignment on the path (not from a branch decision)
}

type keyInfo struct {
	key      string
	mentions []types.Object
	pure     bool // no call inside
	shared   bool // mentions a field, a global or a shared local
}

func (f *fact) lookup(ki keyInfo) (bool, bool) {
	v, ok, _ := f.lookupSrc(ki)
	return v, ok
}

// lookupSrc is lookup that also reports whether the fact came from an assignment on the path.
func (f *fact) lookupSrc(ki keyInfo) (bool, bool, bool) {
	if !ki.pure {
		return false, false, false
	}
	for ; f != nil; f = f.prev {
		if f.killShrd {
			if ki.shared {
				return false, false, false
			}
			continue
		}
		if f.killObj != nil {
			for _, m := range ki.mentions {
				if m == f.killObj {
					return false, false, false
				}
			}
			continue
		}
		if f.key == ki.key {
			return f.val, true, f.store
		}
	}
	return false, false, false
}

func unparen(e ast.Expr) ast.Expr {
	for {
		p, ok := e.(*ast.ParenExpr)
		if !ok {
			return e
		}
		e = p.X
	}
}

// exprKey builds a canonical key of a side-effect-free expression in a frame.
func (w *walker) exprKey(e ast.Expr, fr *Frame, st *state, ki *keyInfo) string {
	info := fr.Info()
	switch e := unparen(e).(type) {
	case *ast.Ident:
		obj := info.Uses[e]
		if obj == nil {
			obj = info.Defs[e]
		}
		switch o := obj.(type) {
		case *types.Nil:
			return "nil"
		case *types.Const:
			return o.Val().ExactString()
		case *types.Var:
			if v, ok := st.env.lookup(o); ok && v.Kind == VAlias {
				ki.mentions = append(ki.mentions, v.Obj)
				if w.isShared(v.Obj) {
					ki.shared = true
				}
				return v.Key
			}
			ki.mentions = append(ki.mentions, o)
			if w.isShared(o) {
				ki.shared = true
			}
			return fmt.Sprintf("%s#%d", o.Name(), w.prog.ObjID(o))
		case nil:
			return e.Name
		default:
			return fmt.Sprintf("%s#%d", obj.Name(), w.prog.ObjID(obj))
		}
	case *ast.SelectorExpr:
		if sel, ok := info.Selections[e]; ok {
			if v, ok := sel.Obj().(*types.Var); ok {
				v = v.Origin()
				ki.mentions = append(ki.mentions, v)
				ki.shared = true
				return w.exprKey(e.X, fr, st, ki) + "." + fmt.Sprintf("%s#%d", v.Name(), w.prog.ObjID(v))
			}
			// method value
			ki.pure = false
			return fmt.Sprintf("mv@%d", e.Pos())
		}
		// qualified identifier
		if obj := info.Uses[e.Sel]; obj != nil {
			if c, ok := obj.(*types.Const); ok {
				return c.Val().ExactString()
			}
			if _, ok := obj.(*types.Var); ok {
				ki.mentions = append(ki.mentions, obj)
			}
			return obj.Pkg().Path() + "." + obj.Name()
		}
		return ExprString(e)
	case *ast.BasicLit:
		if tv, ok := info.Types[e]; ok && tv.Value != nil {
			return tv.Value.ExactString()
		}
		return e.Value
	case *ast.StarExpr:
		return "*" + w.exprKey(e.X, fr, st, ki)
	case *ast.UnaryExpr:
		if e.Op == token.ARROW {
			ki.pure = false
		}
		return e.Op.String() + w.exprKey(e.X, fr, st, ki)
	case *ast.IndexExpr:
		return w.exprKey(e.X, fr, st, ki) + "[" + w.exprKey(e.Index, fr, st, ki) + "]"
	case *ast.BinaryExpr:
		return "(" + w.exprKey(e.X, fr, st, ki) + " " + e.Op.String() + " " + w.exprKey(e.Y, fr, st, ki) + ")"
	case *ast.CallExpr:
		if id, ok := unparen(e.Fun).(*ast.Ident); ok {
			if b, ok := info.Uses[id].(*types.Builtin); ok && (b.Name() == "len" || b.Name() == "cap") && len(e.Args) == 1 {
				return b.Name() + "(" + w.exprKey(e.Args[0], fr, st, ki) + ")"
			}
		}
		ki.pure = false
		return fmt.Sprintf("call@%d", e.Pos())
	}
	ki.pure = false
	return fmt.Sprintf("expr@%d", e.Pos())
}

// atomKey canonicalises a condition atom: returns the key of its positive form and whether the
// atom is the negation of that form.
//
//	a != b  ->  !(a == b)        a >= b -> !(a < b)       a > b -> (b < a)      a <= b -> !(b < a)
func (w *walker) atomKey(e ast.Expr, fr *Frame, st *state) (keyInfo, bool) {
	ki := keyInfo{pure: true}
	e = unparen(e)
	neg := false
	for {
		u, ok := e.(*ast.UnaryExpr)
		if !ok || u.Op != token.NOT {
			break
		}
		neg = !neg
		e = unparen(u.X)
	}
	if b, ok := e.(*ast.BinaryExpr); ok {
		x := w.exprKey(b.X, fr, st, &ki)
		y := w.exprKey(b.Y, fr, st, &ki)
		switch b.Op {
		case token.EQL, token.NEQ:
			if y < x && y != "nil" || x == "nil" {
				x, y = y, x
			}
			ki.key = "(" + x + " == " + y + ")"
			if b.Op == token.NEQ {
				neg = !neg
			}
			return ki, neg
		case token.LSS:
			ki.key = "(" + x + " < " + y + ")"
			return ki, neg
		case token.GEQ:
			ki.key = "(" + x + " < " + y + ")"
			return ki, !neg
		case token.GTR:
			ki.key = "(" + y + " < " + x + ")"
			return ki, neg
		case token.LEQ:
			ki.key = "(" + y + " < " + x + ")"
			return ki, !neg
		}
	}
	ki.key = w.exprKey(e, fr, st, &ki)
	return ki, neg
}

// AtomKeyOf is the exported form used by rules on finished paths (no environment: aliases are
// not resolved).
func AtomKeyOf(p *Prog, e ast.Expr, fr *Frame) (string, bool) {
	w := &walker{prog: p}
	st := &state{}
	ki, neg := w.atomKey(e, fr, st)
	return ki.key, neg
}

// killFactsFor adds tombstones for the variables written by an assignment to lhs.
func (w *walker) killFactsFor(lhs ast.Expr, fr *Frame, st *state) {
	info := fr.Info()
	for {
		switch e := unparen(lhs).(type) {
		case *ast.Ident:
			obj := info.Uses[e]
			if obj == nil {
				obj = info.Defs[e]
			}
			if obj != nil {
				if v, ok := st.env.lookup(obj); ok && v.Kind == VAlias {
					obj = v.Obj
				}
				st.facts = &fact{prev: st.facts, killObj: obj}
			}
			return
		case *ast.SelectorExpr:
			if sel, ok := info.Selections[e]; ok {
				if v, ok := sel.Obj().(*types.Var); ok {
					st.facts = &fact{prev: st.facts, killObj: v.Origin()}
					return
				}
			}
			if obj := info.Uses[e.Sel]; obj != nil {
				st.facts = &fact{prev: st.facts, killObj: obj}
			}
			return
		case *ast.IndexExpr:
			lhs = e.X
		case *ast.StarExpr:
			lhs = e.X
		case *ast.SliceExpr:
			lhs = e.X
		default:
			return
		}
	}
}

func (w *walker) setFact(st *state, ki keyInfo, val bool) {
	if !ki.pure || strings.Contains(ki.key, "call@") {
		return
	}
	st.facts = &fact{prev: st.facts, key: ki.key, val: val}
}

func (w *walker) setStoreFact(st *state, ki keyInfo, val bool) {
	w.setFact(st, ki, val)
	if st.facts != nil && st.facts.key == ki.key {
		st.facts.store = true
	}
}
