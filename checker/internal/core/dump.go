package core

import (
	"fmt"
	"strings"
)

// DumpEvent renders one event for debugging and replay output.
func (p *Prog) DumpEvent(ev *Event) string {
	var b strings.Builder
	fmt.Fprintf(&b, "%-18s d%d %-9s ", p.Pos(ev.Pos), frameDepth(ev.Frame), ev.Kind)
	switch ev.Kind {
	case KBranch:
		f := ""
		if ev.Forced() {
			f = " (forced)"
		}
		fmt.Fprintf(&b, "%s = %v%s", ExprString(ev.Cond), ev.CondVal, f)
	case KCall:
		if ev.Builtin != "" {
			fmt.Fprintf(&b, "builtin %s %s", ev.Builtin, ExprString(ev.Call))
		} else {
			fmt.Fprintf(&b, "%s -> %s", ExprString(ev.Call.Fun), FuncName(ev.Callee))
		}
	case KGo, KDefer:
		fmt.Fprintf(&b, "%s [%s]", ExprString(ev.Call.Fun), ev.FunVal)
	case KEnter, KExit:
		fmt.Fprintf(&b, "%s", ev.Inner.Name())
	case KAssign:
		fmt.Fprintf(&b, "%s %s %s", ExprString(ev.Lhs), ev.Tok, ExprString(ev.Rhs))
		if ev.RhsIdx >= 0 {
			fmt.Fprintf(&b, " [#%d]", ev.RhsIdx)
		}
	case KIncDec:
		fmt.Fprintf(&b, "%s%s", ExprString(ev.Lhs), ev.Tok)
	case KRecv, KSend, KClose:
		fmt.Fprintf(&b, "%s", ExprString(ev.Chan))
		if ev.InSelect {
			b.WriteString(" (select)")
		}
		if ev.NonBlocking {
			b.WriteString(" (nonblocking)")
		}
	case KSelect:
		fmt.Fprintf(&b, "arm %d default=%v", ev.Arm, ev.HasDefault)
	case KReturn:
		var rs []string
		for _, r := range ev.Results {
			rs = append(rs, ExprString(r))
		}
		b.WriteString(strings.Join(rs, ", "))
	case KAcquire, KRelease, KBroadcast, KGetWaitCh:
		b.WriteString(LockName(ev.Lock))
		if ev.Reacquired() {
			b.WriteString(" (REACQUIRED)")
		}
		if ev.NotHeld() {
			b.WriteString(" (NOT HELD)")
		}
	case KAccess:
		rw := "read"
		if ev.Write {
			rw = "write"
		}
		name := ev.Var.Name()
		if ev.Var.IsField() {
			name = FieldName(ev.Var)
		}
		fmt.Fprintf(&b, "%s %s", rw, name)
	case KLoop:
		fmt.Fprintf(&b, "iteration %d", ev.Int&0xffff)
	}
	if ev.IsDeferred() {
		b.WriteString(" (deferred)")
	}
	if len(ev.Locks) > 0 {
		fmt.Fprintf(&b, "   %s", LockSetString(ev.Locks))
	}
	return b.String()
}

func frameDepth(f *Frame) int {
	n := 0
	for ; f != nil && f.Parent != nil; f = f.Parent {
		n++
	}
	return n
}
