package core

import (
	"fmt"
	"go/ast"
	"go/token"
	"go/types"

	"golang.org/x/tools/go/packages"
)

// Config configures one walk.
type Config struct {
	// Follow decides whether a call of a declared module function is walked in place.
	Follow func(callee *types.Func) bool
	// FollowCtx, if set, is consulted as well, with the locks held at the call site.
	FollowCtx func(callee *types.Func, locks []Held) bool
	// EmitAccess makes the walker emit KAccess events for variable reads and writes.
	EmitAccess bool
	// SharedFacts keeps branch decisions and stored values of shared state as path facts also where no
	// lock is held (for walks of a single helper whose caller holds the lock: contradiction rules)
	SharedFacts bool
	MaxDepth   int // inlining bound (default 6)
	MaxPaths   int // per-entry path cap (default 60000)
	Unroll     int // loop unrolling (default 2)
}

// Entry is the function (or literal) a walk starts from.
type Entry struct {
	Decl  *FuncDecl
	Lit   *ast.FuncLit
	Pkg   *packages.Package // for Lit
	Outer *FuncDecl         // declared function enclosing Lit (for shared-local analysis)
	Locks []Held
	Binds map[types.Object]Value
	Name  string
}

// Undecided is returned when a walk exceeds one of its bounds or meets an unsupported construct.
type Undecided struct{ Reason string }

func (u *Undecided) Error() string { return "undecided: " + u.Reason }

type deferred struct {
	call *ast.CallExpr
	fr   *Frame
	fv   Value
	args []Value
}

type frameState struct {
	fr       *Frame
	defers   []deferred
	ret      func(st *state)
	ctlDepth int
}

type ctl struct {
	label  string
	brk    func(st *state)
	cont   func(st *state) // nil for switch/select
	isLoop bool
}

type state struct {
	last   *Event
	seq    int
	env    *env
	facts  *fact
	locks  []Held
	frames []*frameState
	ctls   []ctl
	// results of the most recently finished inlined call
	lastVals   []Value
	lastReturn *Event
	inDefer    int
}

func (st *state) clone() *state {
	c := *st
	return &c
}

func (st *state) top() *frameState { return st.frames[len(st.frames)-1] }
func (st *state) fr() *Frame       { return st.top().fr }

type walker struct {
	prog    *Prog
	cfg     *Config
	onPath  func(*Path)
	nPaths  int
	nFrames int
	err     error
	shared  map[types.Object]bool
	// locals that hold exactly one function literal for their whole life (safe to inline even
	// when another closure captures them)
	boundOnce  map[types.Object]bool
	sharedMemo map[types.Object]bool
	entry      *Frame
}

func (w *walker) isShared(o types.Object) bool {
	if v, ok := o.(*types.Var); ok {
		if v.IsField() {
			return true
		}
		if v.Parent() != nil && v.Pkg() != nil && v.Parent() == v.Pkg().Scope() {
			return true // package-level variable
		}
	}
	if w.shared[o] {
		return true
	}
	// a local of an inlined declared function: its own escape information decides
	if v, ok := o.(*types.Var); ok && v.Pos().IsValid() {
		if w.sharedMemo == nil {
			w.sharedMemo = map[types.Object]bool{}
		}
		if r, ok := w.sharedMemo[o]; ok {
			return r
		}
		r := false
		if d := w.prog.EnclosingDecl(v.Pos()); d != nil {
			r = SharedLocals(w.prog, d)[o]
		}
		w.sharedMemo[o] = r
		return r
	}
	return false
}

// isBoundOnce: a local bound exactly once to a function literal (in whichever function declares it).
func (w *walker) isBoundOnce(o types.Object) bool {
	if w.boundOnce[o] {
		return true
	}
	if v, ok := o.(*types.Var); ok && v.Pos().IsValid() {
		if d := w.prog.EnclosingDecl(v.Pos()); d != nil {
			return len(EscapesOf(w.prog, d).Bound[o]) == 1
		}
	}
	return false
}

// Walk enumerates the paths of an entry.
func Walk(prog *Prog, cfg *Config, entry Entry, onPath func(*Path)) (nPaths int, err error) {
	if cfg.MaxDepth == 0 {
		cfg.MaxDepth = 10
	}
	if cfg.MaxPaths == 0 {
		cfg.MaxPaths = 60000
	}
	if cfg.Unroll == 0 {
		cfg.Unroll = 2
	}
	w := &walker{prog: prog, cfg: cfg, onPath: onPath}
	fr := &Frame{ID: 0}
	var outer *FuncDecl
	if entry.Decl != nil {
		fr.Fn, fr.Decl, fr.Pkg = entry.Decl.Obj, entry.Decl.Decl, entry.Decl.Pkg
		outer = entry.Decl
	} else {
		fr.Lit, fr.Pkg = entry.Lit, entry.Pkg
		outer = entry.Outer
	}
	if outer != nil {
		w.shared = SharedLocals(prog, outer)
		w.boundOnce = map[types.Object]bool{}
		for obj, lits := range EscapesOf(prog, outer).Bound {
			if len(lits) == 1 {
				w.boundOnce[obj] = true
			}
		}
	}
	w.entry = fr
	st := &state{}
	if entry.Lit != nil && outer != nil {
		// local closures of the enclosing function that the literal can call
		ei := EscapesOf(prog, outer)
		for obj, lits := range ei.Bound {
			if len(lits) != 1 || lits[0] == entry.Lit {
				continue
			}
			if obj.Pos() >= entry.Lit.Pos() && obj.Pos() < entry.Lit.End() {
				continue
			}
			// the bound literal must not contain the entry literal (no self inlining)
			if entry.Lit.Pos() >= lits[0].Pos() && entry.Lit.End() <= lits[0].End() {
				continue
			}
			st.env = st.env.bind(obj, Value{Kind: VFuncLit, Lit: lits[0], LitFr: &Frame{Pkg: outer.Pkg}})
		}
	}
	for o, v := range entry.Binds {
		st.env = st.env.bind(o, v)
	}
	st.locks = append([]Held(nil), entry.Locks...)
	st.frames = []*frameState{{fr: fr, ret: func(st *state) { w.finish(st, EndReturn) }}}
	defer func() {
		if r := recover(); r != nil {
			if u, ok := r.(*Undecided); ok {
				err = u
				return
			}
			panic(r)
		}
	}()
	body := fr.Body()
	w.block(body.List, st, func(st *state) { w.doReturn(st, nil) })
	return w.nPaths, w.err
}

func (w *walker) finish(st *state, end EndKind) {
	w.nPaths++
	if w.nPaths > w.cfg.MaxPaths {
		panic(&Undecided{Reason: fmt.Sprintf("more than %d paths", w.cfg.MaxPaths)})
	}
	n := 0
	for e := st.last; e != nil; e = e.prev {
		n++
	}
	evs := make([]*Event, n)
	for e := st.last; e != nil; e = e.prev {
		n--
		evs[n] = e
	}
	w.onPath(&Path{Events: evs, End: end})
}

func (w *walker) emit(st *state, ev *Event) *Event {
	ev.prev = st.last
	st.seq++
	ev.Seq = st.seq
	if ev.Frame == nil {
		ev.Frame = st.fr()
	}
	if ev.Locks == nil {
		ev.Locks = st.locks
	}
	if st.inDefer > 0 {
		ev.Int |= 1 << 40 // deferred marker (see Event.Deferred)
	}
	st.last = ev
	return ev
}

// IsDeferred reports whether the event happened while running a deferred call.
func (e *Event) IsDeferred() bool { return e.Int&(1<<40) != 0 }

// ---------------------------------------------------------------------------------------------
// statements

func (w *walker) block(list []ast.Stmt, st *state, k func(*state)) {
	if len(list) == 0 {
		k(st)
		return
	}
	w.stmt(list[0], st, func(st *state) { w.block(list[1:], st, k) })
}

func (w *walker) pushCtl(st *state, c ctl) *state {
	st = st.clone()
	st.ctls = append(append([]ctl(nil), st.ctls...), c)
	return st
}

func (w *walker) popCtl(st *state, n int) *state {
	st = st.clone()
	st.ctls = st.ctls[:n]
	return st
}

func (w *walker) stmt(s ast.Stmt, st *state, k func(*state)) {
	switch s := s.(type) {
	case nil, *ast.EmptyStmt:
		k(st)
	case *ast.ExprStmt:
		w.expr(s.X, st, func(st *state, _ Value) { k(st) })
	case *ast.BlockStmt:
		w.block(s.List, st, k)
	case *ast.LabeledStmt:
		w.labeled(s, st, k)
	case *ast.AssignStmt:
		w.assign(s, st, k)
	case *ast.IncDecStmt:
		w.incdec(s, st, k)
	case *ast.DeclStmt:
		w.declStmt(s, st, k)
	case *ast.IfStmt:
		w.stmt(s.Init, st, func(st *state) {
			w.cond(s.Cond, st, func(st *state) {
				w.block(s.Body.List, st, k)
			}, func(st *state) {
				if s.Else != nil {
					w.stmt(s.Else, st, k)
				} else {
					k(st)
				}
			})
		})
	case *ast.ForStmt:
		w.forStmt(s, "", st, k)
	case *ast.RangeStmt:
		w.rangeStmt(s, "", st, k)
	case *ast.SwitchStmt:
		w.switchStmt(s, "", st, k)
	case *ast.TypeSwitchStmt:
		w.typeSwitch(s, "", st, k)
	case *ast.SelectStmt:
		w.selectStmt(s, "", st, k)
	case *ast.ReturnStmt:
		w.doReturn(st, s)
	case *ast.BranchStmt:
		w.branch(s, st)
	case *ast.GoStmt:
		w.goStmt(s, st, k)
	case *ast.DeferStmt:
		w.deferStmt(s, st, k)
	case *ast.SendStmt:
		w.expr(s.Chan, st, func(st *state, _ Value) {
			w.expr(s.Value, st, func(st *state, _ Value) {
				st = st.clone()
				w.emit(st, &Event{Kind: KSend, Pos: s.Pos(), Node: s, Chan: s.Chan})
				k(st)
			})
		})
	default:
		panic(&Undecided{Reason: fmt.Sprintf("unsupported statement %T at %s", s, w.prog.Pos(s.Pos()))})
	}
}

func (w *walker) labeled(s *ast.LabeledStmt, st *state, k func(*state)) {
	switch inner := s.Stmt.(type) {
	case *ast.ForStmt:
		w.forStmt(inner, s.Label.Name, st, k)
	case *ast.RangeStmt:
		w.rangeStmt(inner, s.Label.Name, st, k)
	case *ast.SwitchStmt:
		w.switchStmt(inner, s.Label.Name, st, k)
	case *ast.TypeSwitchStmt:
		w.typeSwitch(inner, s.Label.Name, st, k)
	case *ast.SelectStmt:
		w.selectStmt(inner, s.Label.Name, st, k)
	default:
		w.stmt(s.Stmt, st, k)
	}
}

func (w *walker) branch(s *ast.BranchStmt, st *state) {
	label := ""
	if s.Label != nil {
		label = s.Label.Name
	}
	switch s.Tok {
	case token.BREAK:
		for i := len(st.ctls) - 1; i >= 0; i-- {
			c := st.ctls[i]
			if label == "" || c.label == label {
				c.brk(w.popCtl(st, i))
				return
			}
		}
	case token.CONTINUE:
		for i := len(st.ctls) - 1; i >= 0; i-- {
			c := st.ctls[i]
			if c.isLoop && (label == "" || c.label == label) {
				c.cont(w.popCtl(st, i+1))
				return
			}
		}
	}
	panic(&Undecided{Reason: fmt.Sprintf("unsupported branch statement %s at %s", s.Tok, w.prog.Pos(s.Pos()))})
}

func (w *walker) forStmt(s *ast.ForStmt, label string, st *state, k func(*state)) {
	depth := len(st.ctls)
	var iter func(st *state, n int)
	iter = func(st *state, n int) {
		body := func(st *state) {
			if n >= w.cfg.Unroll {
				if s.Cond == nil {
					w.finish(st, EndLoopCut)
					return
				}
				// a conditional loop is cut after Unroll iterations: the remaining iterations are
				// summarised by forgetting everything the loop assigns, then the loop is left
				// — under its exit condition: the condition is evaluated once more on the forgotten
				// state; only its false outcome leaves the loop (so "the loop ended" always comes with
				// the decision that ended it, also when the condition is an attempt helper's result)
				st = st.clone()
				w.havoc(st, s.Body, s.Post)
				// marker: "any number of further trips happened here"; rules that follow a per-trip
				// discipline treat it as a trip that did what the walked trips did
				w.emit(st, &Event{Kind: KHavoc, Pos: s.Pos(), Node: s})
				w.cond(s.Cond, st, func(st *state) { w.finish(st, EndLoopCut) }, func(st *state) { k(st) })
				return
			}
			st = w.pushCtl(st, ctl{label: label, isLoop: true,
				brk: func(st *state) { k(st) },
				cont: func(st *state) {
					st = w.popCtl(st, depth)
					w.stmt(s.Post, st, func(st *state) { iter(st, n+1) })
				}})
			st = st.clone()
			w.emit(st, &Event{Kind: KLoop, Pos: s.Pos(), Node: s, Int: int64(n)})
			w.block(s.Body.List, st, func(st *state) {
				st = w.popCtl(st, depth)
				w.stmt(s.Post, st, func(st *state) { iter(st, n+1) })
			})
		}
		if s.Cond == nil {
			body(st)
			return
		}
		w.cond(s.Cond, st, body, func(st *state) { k(st) })
	}
	w.stmt(s.Init, st, func(st *state) { iter(st, 0) })
}

func (w *walker) rangeStmt(s *ast.RangeStmt, label string, st *state, k func(*state)) {
	depth := len(st.ctls)
	w.expr(s.X, st, func(st *state, _ Value) {
		st = st.clone()
		w.emit(st, &Event{Kind: KRange, Pos: s.Pos(), Node: s})
		var iter func(st *state, n int)
		iter = func(st *state, n int) {
			// exit
			k(st.clone())
			if n >= w.cfg.Unroll {
				return
			}
			st = st.clone()
			// the iteration variables are (re)assigned
			for _, lhs := range []ast.Expr{s.Key, s.Value} {
				if lhs == nil {
					continue
				}
				w.bindUnknown(lhs, st)
				w.killFactsFor(lhs, st.fr(), st)
				w.emit(st, &Event{Kind: KAssign, Pos: lhs.Pos(), Node: s, Lhs: lhs, RhsIdx: -1, Tok: s.Tok, Define: s.Tok == token.DEFINE})
			}
			st = w.pushCtl(st, ctl{label: label, isLoop: true,
				brk:  func(st *state) { k(st) },
				cont: func(st *state) { iter(w.popCtl(st, depth), n+1) }})
			w.emit(st, &Event{Kind: KLoop, Pos: s.Pos(), Node: s, Int: int64(n)})
			w.block(s.Body.List, st, func(st *state) { iter(w.popCtl(st, depth), n+1) })
		}
		iter(st, 0)
	})
}

func (w *walker) bindUnknown(lhs ast.Expr, st *state) {
	if id, ok := unparen(lhs).(*ast.Ident); ok {
		info := st.fr().Info()
		obj := info.Defs[id]
		if obj == nil {
			obj = info.Uses[id]
		}
		if obj != nil {
			st.env = st.env.bind(obj, Value{})
		}
	}
}

func (w *walker) switchStmt(s *ast.SwitchStmt, label string, st *state, k func(*state)) {
	depth := len(st.ctls)
	w.stmt(s.Init, st, func(st *state) {
		run := func(st *state) {
			var clauses []*ast.CaseClause
			var def *ast.CaseClause
			for _, c := range s.Body.List {
				cc := c.(*ast.CaseClause)
				if cc.List == nil {
					def = cc
				} else {
					clauses = append(clauses, cc)
				}
			}
			var enter func(st *state, cc *ast.CaseClause)
			enter = func(st *state, cc *ast.CaseClause) {
				st = w.pushCtl(st, ctl{label: label, brk: func(st *state) { k(st) }})
				body := cc.Body
				var next *ast.CaseClause
				if n := len(body); n > 0 {
					if bs, ok := body[n-1].(*ast.BranchStmt); ok && bs.Tok == token.FALLTHROUGH {
						body = body[:n-1]
						for i, c := range s.Body.List {
							if c == ast.Stmt(cc) && i+1 < len(s.Body.List) {
								next = s.Body.List[i+1].(*ast.CaseClause)
							}
						}
					}
				}
				w.block(body, st, func(st *state) {
					st = w.popCtl(st, depth)
					if next != nil {
						enter(st, next)
						return
					}
					k(st)
				})
			}
			// flatten (clause, expr) pairs in order
			type ce struct {
				cc *ast.CaseClause
				e  ast.Expr
			}
			var list []ce
			for _, cc := range clauses {
				for _, e := range cc.List {
					list = append(list, ce{cc, e})
				}
			}
			var try func(st *state, i int)
			try = func(st *state, i int) {
				if i == len(list) {
					if def != nil {
						enter(st, def)
					} else {
						k(st)
					}
					return
				}
				var c ast.Expr = list[i].e
				if s.Tag != nil {
					c = &ast.BinaryExpr{X: s.Tag, Op: token.EQL, Y: list[i].e, OpPos: list[i].e.Pos()}
				}
				w.cond(c, st, func(st *state) { enter(st, list[i].cc) }, func(st *state) { try(st, i+1) })
			}
			try(st, 0)
		}
		if s.Tag != nil {
			w.expr(s.Tag, st, func(st *state, _ Value) { run(st) })
		} else {
			run(st)
		}
	})
}

func (w *walker) typeSwitch(s *ast.TypeSwitchStmt, label string, st *state, k func(*state)) {
	depth := len(st.ctls)
	w.stmt(s.Init, st, func(st *state) {
		w.stmt(s.Assign, st, func(st *state) {
			hasDefault := false
			for _, c := range s.Body.List {
				cc := c.(*ast.CaseClause)
				if cc.List == nil {
					hasDefault = true
				}
				st2 := w.pushCtl(st, ctl{label: label, brk: func(st *state) { k(st) }})
				w.emit(st2, &Event{Kind: KSelect, Pos: cc.Pos(), Node: cc, Arm: -2})
				w.block(cc.Body, st2, func(st *state) { k(w.popCtl(st, depth)) })
			}
			if !hasDefault {
				k(st)
			}
		})
	})
}

func (w *walker) selectStmt(s *ast.SelectStmt, label string, st *state, k func(*state)) {
	depth := len(st.ctls)
	hasDefault := false
	for _, c := range s.Body.List {
		if c.(*ast.CommClause).Comm == nil {
			hasDefault = true
		}
	}
	for i, c := range s.Body.List {
		cc := c.(*ast.CommClause)
		st2 := w.pushCtl(st, ctl{label: label, brk: func(st *state) { k(st) }})
		arm := i
		if cc.Comm == nil {
			arm = -1
		}
		w.emit(st2, &Event{Kind: KSelect, Pos: cc.Pos(), Node: s, Arm: arm, HasDefault: hasDefault, Comm: cc})
		body := func(st *state) { w.block(cc.Body, st, func(st *state) { k(w.popCtl(st, depth)) }) }
		switch comm := cc.Comm.(type) {
		case nil:
			body(st2)
		case *ast.SendStmt:
			w.expr(comm.Chan, st2, func(st *state, _ Value) {
				w.expr(comm.Value, st, func(st *state, _ Value) {
					st = st.clone()
					w.emit(st, &Event{Kind: KSend, Pos: comm.Pos(), Node: comm, Chan: comm.Chan, InSelect: true, NonBlocking: hasDefault})
					body(st)
				})
			})
		case *ast.ExprStmt:
			w.commRecv(comm.X, st2, hasDefault, func(st *state) { body(st) })
		case *ast.AssignStmt:
			w.commRecv(comm.Rhs[0], st2, hasDefault, func(st *state) {
				st = st.clone()
				for i, lhs := range comm.Lhs {
					w.bindUnknown(lhs, st)
					w.killFactsFor(lhs, st.fr(), st)
					w.emit(st, &Event{Kind: KAssign, Pos: lhs.Pos(), Node: comm, Lhs: lhs, Rhs: comm.Rhs[0], RhsIdx: i, Tok: comm.Tok, Define: comm.Tok == token.DEFINE})
				}
				body(st)
			})
		}
	}
}

func (w *walker) commRecv(x ast.Expr, st *state, hasDefault bool, k func(*state)) {
	u, ok := unparen(x).(*ast.UnaryExpr)
	if !ok || u.Op != token.ARROW {
		panic(&Undecided{Reason: "unsupported select comm at " + w.prog.Pos(x.Pos())})
	}
	w.expr(u.X, st, func(st *state, _ Value) {
		st = st.clone()
		w.emit(st, &Event{Kind: KRecv, Pos: u.Pos(), Node: u, Chan: u.X, InSelect: true, NonBlocking: hasDefault})
		k(st)
	})
}

func (w *walker) goStmt(s *ast.GoStmt, st *state, k func(*state)) {
	w.exprs(s.Call.Args, st, func(st *state, args []Value) {
		fun := unparen(s.Call.Fun)
		after := func(st *state, fv Value) {
			st = st.clone()
			ev := &Event{Kind: KGo, Pos: s.Pos(), Node: s, Call: s.Call, FunVal: fv, ArgVals: args}
			ev.Callee = w.staticCallee(s.Call, st.fr())
			w.emit(st, ev)
			k(st)
		}
		if lit, ok := fun.(*ast.FuncLit); ok {
			after(st, Value{Kind: VFuncLit, Lit: lit, LitFr: st.fr()})
			return
		}
		w.funExpr(fun, st, after)
	})
}

func (w *walker) deferStmt(s *ast.DeferStmt, st *state, k func(*state)) {
	w.exprs(s.Call.Args, st, func(st *state, args []Value) {
		after := func(st *state, fv Value) {
			st = st.clone()
			ev := &Event{Kind: KDefer, Pos: s.Pos(), Node: s, Call: s.Call, FunVal: fv}
			ev.Callee = w.staticCallee(s.Call, st.fr())
			w.emit(st, ev)
			// copy-on-write push onto the frame's defer list
			frames := append([]*frameState(nil), st.frames...)
			top := *frames[len(frames)-1]
			top.defers = append(append([]deferred(nil), top.defers...), deferred{call: s.Call, fr: st.fr(), fv: fv, args: args})
			frames[len(frames)-1] = &top
			st.frames = frames
			k(st)
		}
		fun := unparen(s.Call.Fun)
		if lit, ok := fun.(*ast.FuncLit); ok {
			after(st, Value{Kind: VFuncLit, Lit: lit, LitFr: st.fr()})
			return
		}
		w.funExpr(fun, st, after)
	})
}

// doReturn evaluates the results, runs the frame's deferred calls and leaves the frame.
func (w *walker) doReturn(st *state, rs *ast.ReturnStmt) {
	var results []ast.Expr
	if rs != nil {
		results = rs.Results
	}
	w.exprs(results, st, func(st *state, vals []Value) {
		st = st.clone()
		pos := token.NoPos
		var node ast.Node
		if rs != nil {
			pos, node = rs.Pos(), rs
		} else if b := st.fr().Body(); b != nil {
			pos, node = b.Rbrace, b
		}
		// a call returning several values: keep the inlined callee's values
		if len(results) == 1 && len(vals) == 1 && st.lastVals != nil && len(st.lastVals) > 1 {
			if _, ok := unparen(results[0]).(*ast.CallExpr); ok {
				vals = st.lastVals
			}
		}
		// a bare return of named results yields their current values
		if len(results) == 0 {
			if ft := st.fr().FuncType(); ft != nil && ft.Results != nil {
				for _, f := range ft.Results.List {
					for _, n := range f.Names {
						v := Value{}
						if o := st.fr().Info().Defs[n]; o != nil && !w.isShared(o) {
							if bv, ok := st.env.lookup(o); ok {
								v = bv
							}
						}
						vals = append(vals, v)
					}
				}
			}
		}
		// a returned variable whose nil-ness a branch decided on this path keeps that fact: the
		// caller's "if err != nil" after "x, err := helper()" is then not an open question
		nilness := func(e ast.Expr) Value {
			t := st.fr().Info().TypeOf(e)
			if t == nil {
				return Value{}
			}
			switch t.Underlying().(type) {
			case *types.Interface, *types.Pointer, *types.Signature, *types.Map, *types.Chan, *types.Slice:
			default:
				return Value{}
			}
			if w.isNonNilExpr(e, st.fr()) {
				return Value{Kind: VNonNil} // errors.New(…), a stdlib sentinel such as context.Canceled, &T{}
			}
			ki := keyInfo{pure: true}
			key := w.exprKey(e, st.fr(), st, &ki)
			if !ki.pure || ki.shared {
				return Value{}
			}
			ki.key = "(" + key + " == nil)"
			if isNil, known := st.facts.lookup(ki); known {
				if isNil {
					return Value{Kind: VNil}
				}
				return Value{Kind: VNonNil}
			}
			return Value{}
		}
		if len(results) == len(vals) {
			vals = append([]Value(nil), vals...)
			for i, e := range results {
				if vals[i].Kind == VUnknown {
					vals[i] = nilness(e)
				}
			}
		} else if len(results) == 0 && len(vals) > 0 {
			if ft := st.fr().FuncType(); ft != nil && ft.Results != nil {
				i := 0
				for _, f := range ft.Results.List {
					for _, n := range f.Names {
						if i < len(vals) && vals[i].Kind == VUnknown {
							vals[i] = nilness(n)
						}
						i++
					}
				}
			}
		}
		ev := w.emit(st, &Event{Kind: KReturn, Pos: pos, Node: node, Results: results})
		st.lastVals, st.lastReturn = vals, ev
		w.runDefers(st)
	})
}

func (w *walker) runDefers(st *state) {
	top := st.top()
	if len(top.defers) == 0 {
		// keep the results across the frame exit
		vals, ret := st.lastVals, st.lastReturn
		st = st.clone()
		st.lastVals, st.lastReturn = vals, ret
		top.ret(st)
		return
	}
	d := top.defers[len(top.defers)-1]
	frames := append([]*frameState(nil), st.frames...)
	ntop := *top
	ntop.defers = top.defers[:len(top.defers)-1]
	frames[len(frames)-1] = &ntop
	st = st.clone()
	st.frames = frames
	vals, ret := st.lastVals, st.lastReturn
	st.inDefer++
	after := func(st *state, _ Value) {
		st = st.clone()
		st.inDefer--
		st.lastVals, st.lastReturn = vals, ret
		w.runDefers(st)
	}
	// the function value and the arguments were evaluated when the defer statement ran
	if d.fv.Kind == VFuncLit {
		w.inlineLit(d.fv.Lit, d.fv.LitFr, d.call, d.args, nil, st, after)
		return
	}
	if id, ok := unparen(d.call.Fun).(*ast.Ident); ok {
		if b, ok := d.fr.Info().Uses[id].(*types.Builtin); ok {
			// deferred builtin (close, panic …): arguments are cheap and side-effect free here
			w.builtin(b.Name(), d.call, st, after)
			return
		}
	}
	w.dispatch(d.call, unparen(d.call.Fun), d.fv, d.args, st, after)
}

// havoc forgets the abstract values and facts of every variable assigned inside the nodes.
func (w *walker) havoc(st *state, nodes ...ast.Node) {
	fr := st.fr()
	forget := func(lhs ast.Expr) {
		w.killFactsFor(lhs, fr, st)
		w.bindUnknown(lhs, st)
	}
	for _, n := range nodes {
		if n == nil {
			continue
		}
		ast.Inspect(n, func(x ast.Node) bool {
			switch a := x.(type) {
			case *ast.AssignStmt:
				for _, l := range a.Lhs {
					forget(l)
				}
			case *ast.IncDecStmt:
				forget(a.X)
			case *ast.RangeStmt:
				if a.Key != nil {
					forget(a.Key)
				}
				if a.Value != nil {
					forget(a.Value)
				}
			case *ast.FuncLit:
				return false
			}
			return true
		})
	}
}
