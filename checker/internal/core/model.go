package core

import (
	"fmt"
	"go/ast"
	"go/token"
	"go/types"
	"sort"
	"strings"

	"golang.org/x/tools/go/packages"
)

// ---------------------------------------------------------------------------------------------
// Locks

// LockKind classifies lock-typed variables.
type LockKind int

const (
	NotLock LockKind = iota
	SyncMutex
	SyncRWMutex
	BcastLock
)

// LockKindOf classifies a type as one of the three lock types of the repository.
func LockKindOf(t types.Type) LockKind {
	if pt, ok := t.(*types.Pointer); ok {
		t = pt.Elem()
	}
	n, ok := t.(*types.Named)
	if !ok || n.Obj().Pkg() == nil {
		return NotLock
	}
	switch n.Obj().Pkg().Path() + "." + n.Obj().Name() {
	case "sync.Mutex":
		return SyncMutex
	case "sync.RWMutex":
		return SyncRWMutex
	case ModPath + "/broadcast.Broadcast":
		return BcastLock
	}
	return NotLock
}

// IsAtomicType reports sync/atomic value types and sync.Once.
func IsAtomicType(t types.Type) bool {
	if pt, ok := t.(*types.Pointer); ok {
		t = pt.Elem()
	}
	n, ok := t.(*types.Named)
	if !ok || n.Obj().Pkg() == nil {
		return false
	}
	switch n.Obj().Pkg().Path() {
	case "sync/atomic":
		return true
	case "sync":
		return n.Obj().Name() == "Once" || n.Obj().Name() == "WaitGroup"
	}
	return false
}

// Held is one held lock.
type Held struct {
	Var  *types.Var // lock-typed field (origin) or local variable
	Base string     // rendering of the base expression, for evidence only
	Read bool       // RLock
	Pos  token.Pos  // where it was acquired
}

// LockName renders a lock identity: Type.field or func/local.
func LockName(v *types.Var) string {
	if v == nil {
		return "<nil>"
	}
	if v.IsField() {
		return FieldName(v)
	}
	return "local:" + v.Name()
}

var fieldOwners = map[*types.Var]string{}

// RegisterFieldOwners records, for every struct declared in the module, the owner of each field
// (types.Var has no back pointer to its struct).
func (p *Prog) RegisterFieldOwners() {
	for _, pkg := range p.Pkgs {
		scope := pkg.Types.Scope()
		for _, name := range scope.Names() {
			tn, ok := scope.Lookup(name).(*types.TypeName)
			if !ok {
				continue
			}
			st, ok := tn.Type().Underlying().(*types.Struct)
			if !ok {
				continue
			}
			rel := strings.TrimPrefix(strings.TrimPrefix(pkg.PkgPath, ModPath), "/")
			for i := 0; i < st.NumFields(); i++ {
				fieldOwners[st.Field(i)] = rel + "." + tn.Name()
			}
		}
	}
}

// FieldName renders Type.field with the package path relative to the module.
func FieldName(v *types.Var) string {
	if v == nil {
		return "<nil>"
	}
	v = v.Origin()
	if o, ok := fieldOwners[v]; ok {
		return o + "." + v.Name()
	}
	if v.Pkg() != nil {
		return v.Pkg().Name() + ".?." + v.Name()
	}
	return v.Name()
}

// LockSetString renders a lockset deterministically.
func LockSetString(hs []Held) string {
	var s []string
	for _, h := range hs {
		n := LockName(h.Var)
		if h.Read {
			n += "(R)"
		}
		s = append(s, n)
	}
	sort.Strings(s)
	return "{" + strings.Join(s, ", ") + "}"
}

// ---------------------------------------------------------------------------------------------
// Values of the abstract environment

// ValKind is the kind of an abstract value.
type ValKind int

const (
	VUnknown   ValKind = iota
	VBool              // constant bool
	VInt               // constant small int (atomic status words, literal ints)
	VNil               // the nil literal
	VFuncLit           // a function literal (closure)
	VBroadcast         // the broadcast func of a HoldLock section
	VGetWaitCh         // the getWaitCh func of a HoldLock section
	VMethodVal         // a method value x.M
	VFunc              // a declared function used as a value
	VAlias             // an alias of a caller-side variable (parameter bound to an identifier)
	VNonNil            // an unknown value known not to be nil (a returned variable a branch decided); never bound in the environment
)

// Value is an abstract value.
type Value struct {
	Kind  ValKind
	Bool  bool
	Int   int64
	Lit   *ast.FuncLit
	LitFr *Frame // frame in which Lit was evaluated
	Lock  *types.Var
	Fn    *types.Func // VMethodVal / VFunc
	Recv  ast.Expr    // VMethodVal receiver expression
	RecvF *Frame
	Key   string       // VAlias: canonical key of the aliased variable
	Obj   types.Object // VAlias: aliased object
}

func (v Value) String() string {
	switch v.Kind {
	case VBool:
		return fmt.Sprint(v.Bool)
	case VInt:
		return fmt.Sprint(v.Int)
	case VNil:
		return "nil"
	case VFuncLit:
		return "funclit"
	case VBroadcast:
		return "broadcast(" + LockName(v.Lock) + ")"
	case VGetWaitCh:
		return "getWaitCh(" + LockName(v.Lock) + ")"
	case VMethodVal:
		return "methodval " + FuncName(v.Fn)
	case VFunc:
		return "func " + FuncName(v.Fn)
	case VAlias:
		return "alias " + v.Key
	}
	return "?"
}

// env is a persistent map from objects to values.
type env struct {
	parent *env
	obj    types.Object
	val    Value
}

func (e *env) lookup(o types.Object) (Value, bool) {
	for ; e != nil; e = e.parent {
		if e.obj == o {
			return e.val, true
		}
	}
	return Value{}, false
}

func (e *env) bind(o types.Object, v Value) *env {
	return &env{parent: e, obj: o, val: v}
}

// ---------------------------------------------------------------------------------------------
// Frames

// Frame is one activation: the entry function, an inlined function or an inlined literal.
type Frame struct {
	ID     int
	Parent *Frame
	Fn     *types.Func // declared function (origin), nil for literals
	Lit    *ast.FuncLit
	Decl   *ast.FuncDecl
	Pkg    *packages.Package
	Call   *ast.CallExpr // call site in Parent (nil for the entry frame)
	Depth  int
	// CS is set when the frame is the callback literal of a HoldLock-family call.
	CS *types.Var
	// Deferred is set when the frame runs as a deferred call.
	Deferred bool
}

// Info returns the types.Info of the frame's package.
func (f *Frame) Info() *types.Info { return f.Pkg.TypesInfo }

// Name renders the frame's function.
func (f *Frame) Name() string {
	if f.Fn != nil {
		return FuncName(f.Fn)
	}
	if f.Parent != nil {
		return f.Parent.Name() + ".func"
	}
	return "func"
}

// FuncType returns the frame's function type node.
func (f *Frame) FuncType() *ast.FuncType {
	if f.Decl != nil {
		return f.Decl.Type
	}
	if f.Lit != nil {
		return f.Lit.Type
	}
	return nil
}

// Body returns the frame's body.
func (f *Frame) Body() *ast.BlockStmt {
	if f.Decl != nil {
		return f.Decl.Body
	}
	if f.Lit != nil {
		return f.Lit.Body
	}
	return nil
}

// ---------------------------------------------------------------------------------------------
// Events

// Kind is the kind of a trace event.
type Kind int

const (
	KBranch     Kind = iota // an atom of a branch condition was decided
	KCall                   // a call that was not inlined (opaque)
	KEnter                  // entering an inlined function or literal
	KExit                   // leaving an inlined function or literal
	KAssign                 // one lhs := rhs pair (Rhs may be nil for var decl / multi-value)
	KIncDec                 // x++ / x--
	KRecv                   // <-ch (blocking unless InSelectWithDefault)
	KSend                   // ch <- v
	KClose                  // close(ch)
	KSelect                 // a select arm was chosen (Arm = index, -1 default)
	KGo                     // go statement
	KDefer                  // defer registration
	KReturn                 // return statement (Results)
	KAcquire                // lock acquired (Lock/RLock/TryLock success/HoldLock entry)
	KRelease                // lock released
	KBroadcast              // broadcast() of a section
	KGetWaitCh              // getWaitCh() of a section
	KPanic                  // panic(...)
	KAccess                 // read or write of a variable (only with EmitAccess)
	KLoop                   // loop iteration boundary (Int = iteration number)
	KHavoc                  // the trips of a conditional loop beyond the unroll bound, summarised (everything the body assigns is forgotten)
	KFuncLitVal             // a function literal was evaluated as a value (escapes unless called)
	KRange                  // range loop head (X = ranged expression)
)

var kindNames = [...]string{"branch", "call", "enter", "exit", "assign", "incdec", "recv", "send", "close", "select",
	"go", "defer", "return", "acquire", "release", "broadcast", "getWaitCh", "panic", "access", "loop", "funclit", "range"}

func (k Kind) String() string {
	if int(k) < len(kindNames) {
		return kindNames[k]
	}
	return "havoc"
}

// Event is one step of a path.
type Event struct {
	prev  *Event
	Seq   int
	Kind  Kind
	Pos   token.Pos
	Frame *Frame
	Locks []Held // locks held when the event happened (after the event for acquire, before for release)

	Node ast.Node

	// KBranch
	Cond    ast.Expr
	CondVal bool
	CondKey string // canonical atom key (positive form); CondVal already accounts for normalisation

	// KCall / KGo / KDefer / KEnter
	Call    *ast.CallExpr
	Callee  *types.Func // resolved static callee (origin), nil if dynamic
	FunVal  Value       // value of the called expression when known (funclit / method value / broadcast …)
	Inner   *Frame      // KEnter/KExit: the frame entered/left
	ArgVals []Value     // KCall/KGo: abstract values of the arguments

	// KAssign / KIncDec
	Lhs    ast.Expr
	Rhs    ast.Expr
	RhsIdx int // index into a multi-value Rhs (call with several results), -1 otherwise
	Tok    token.Token
	Define bool

	// KRecv / KSend / KClose
	Chan        ast.Expr
	NonBlocking bool // receive/send inside a select that has a default clause
	InSelect    bool

	// KSelect
	Arm        int
	HasDefault bool
	Comm       *ast.CommClause

	// KReturn
	Results []ast.Expr

	// KAcquire / KRelease / KBroadcast / KGetWaitCh
	Lock    *types.Var
	LockTry bool

	// KAccess
	Var   *types.Var
	Write bool
	Base  ast.Expr // base expression of a field access (nil for locals)

	// KAssign: the return event of the inlined call that produced the value
	RetEv *Event
	// KAssign: abstract value stored; KFuncLitVal: the function value created
	Val Value
	// KAssign from a composite literal field initialiser (Lhs is the field name, Var the field)
	FieldInit bool
	// KCall: name of the builtin, if the call is one
	Builtin string

	Int int64
}

// CanonTrue reports the truth value of the branch atom's canonical (positive) form.
func (e *Event) CanonTrue() bool { return e.CondVal != (e.Int&2 != 0) }

// Path is one finished path.
type Path struct {
	Events []*Event
	End    EndKind
}

// EndKind says how a path ended.
type EndKind int

const (
	EndReturn EndKind = iota
	EndPanic
	EndLoopCut // cut at the unrolling bound of an endless loop
)

func (e EndKind) String() string { return [...]string{"return", "panic", "loop-cut"}[e] }

// Witness renders the branch decisions of a path.
func (p *Prog) Witness(path *Path) []string {
	var out []string
	for _, ev := range path.Events {
		switch ev.Kind {
		case KBranch:
			out = append(out, fmt.Sprintf("%s: %s = %v", p.Pos(ev.Pos), ExprString(ev.Cond), ev.CondVal))
		case KSelect:
			if ev.Arm < 0 {
				out = append(out, fmt.Sprintf("%s: select default", p.Pos(ev.Pos)))
			} else {
				out = append(out, fmt.Sprintf("%s: select arm %d", p.Pos(ev.Pos), ev.Arm))
			}
		case KEnter:
			out = append(out, fmt.Sprintf("%s: enter %s", p.Pos(ev.Pos), ev.Inner.Name()))
		}
	}
	return out
}

// ExprString renders an expression compactly.
func ExprString(e ast.Expr) string {
	if e == nil {
		return "<nil>"
	}
	return types.ExprString(e)
}
