// Package core holds the loader, the critical-section model and the path walker
// that all rules of utilcheck are built on (DESIGN.md §2.2–2.4).
package core

import (
	"fmt"
	"go/ast"
	"go/token"
	"go/types"
	"os"
	"path/filepath"
	"sort"
	"strings"

	"golang.org/x/tools/go/packages"
)

// ModPath is the module path of the repository under analysis.
const ModPath = "github.com/aperturerobotics/util"

// FuncDecl is a declared function or method of the module.
type FuncDecl struct {
	Obj  *types.Func
	Decl *ast.FuncDecl
	Pkg  *packages.Package
}

// Prog is the loaded, type-checked program.
type Prog struct {
	Fset  *token.FileSet
	Dir   string
	Pkgs  []*packages.Package          // module packages, sorted by path
	ByPkg map[string]*packages.Package // by import path
	Funcs map[*types.Func]*FuncDecl    // origin func -> decl
	Files map[string]*ast.File         // path relative to Dir -> file
	// PkgOfFile maps a file to its package
	PkgOfFile map[*ast.File]*packages.Package
	objIDs    map[types.Object]int
}

// LoadEnv is the environment every load uses (offline, no workspace).
func LoadEnv(extra ...string) []string {
	env := []string{}
	for _, kv := range os.Environ() {
		if strings.HasPrefix(kv, "GOWORK=") || strings.HasPrefix(kv, "GOFLAGS=") ||
			strings.HasPrefix(kv, "GOPROXY=") || strings.HasPrefix(kv, "GOSUMDB=") ||
			strings.HasPrefix(kv, "GOTOOLCHAIN=") {
			continue
		}
		env = append(env, kv)
	}
	env = append(env, "GOFLAGS=-mod=mod", "GOPROXY=off", "GOSUMDB=off", "GOTOOLCHAIN=local", "GOWORK=off")
	return append(env, extra...)
}

// Load loads ./... of dir. Any parse or type error is a hard failure.
func Load(dir string, extraEnv ...string) (*Prog, error) {
	cfg := &packages.Config{
		Mode: packages.NeedName | packages.NeedFiles | packages.NeedSyntax | packages.NeedTypes |
			packages.NeedTypesInfo | packages.NeedDeps | packages.NeedImports | packages.NeedModule,
		Dir:   dir,
		Env:   LoadEnv(extraEnv...),
		Tests: false,
	}
	pkgs, err := packages.Load(cfg, "./...")
	if err != nil {
		return nil, fmt.Errorf("load: %w", err)
	}
	if len(pkgs) == 0 {
		return nil, fmt.Errorf("load: zero packages under %s", dir)
	}
	p := &Prog{
		Dir:       dir,
		ByPkg:     map[string]*packages.Package{},
		Funcs:     map[*types.Func]*FuncDecl{},
		Files:     map[string]*ast.File{},
		PkgOfFile: map[*ast.File]*packages.Package{},
		objIDs:    map[types.Object]int{},
	}
	var errs []string
	packages.Visit(pkgs, nil, func(pkg *packages.Package) {
		for _, e := range pkg.Errors {
			if strings.HasPrefix(pkg.PkgPath, ModPath) {
				errs = append(errs, pkg.PkgPath+": "+e.Error())
			}
		}
	})
	if len(errs) > 0 {
		sort.Strings(errs)
		return nil, fmt.Errorf("load: type-check errors:\n  %s", strings.Join(errs, "\n  "))
	}
	for _, pkg := range pkgs {
		if !strings.HasPrefix(pkg.PkgPath, ModPath) {
			continue
		}
		if pkg.Fset != nil {
			p.Fset = pkg.Fset
		}
		p.Pkgs = append(p.Pkgs, pkg)
		p.ByPkg[pkg.PkgPath] = pkg
		for _, f := range pkg.Syntax {
			fn := p.Fset.Position(f.Pos()).Filename
			rel, err := filepath.Rel(dir, fn)
			if err != nil {
				rel = fn
			}
			p.Files[rel] = f
			p.PkgOfFile[f] = pkg
			for _, d := range f.Decls {
				fd, ok := d.(*ast.FuncDecl)
				if !ok || fd.Body == nil {
					continue
				}
				if obj, ok := pkg.TypesInfo.Defs[fd.Name].(*types.Func); ok {
					p.Funcs[obj] = &FuncDecl{Obj: obj, Decl: fd, Pkg: pkg}
				}
			}
		}
	}
	sort.Slice(p.Pkgs, func(i, j int) bool { return p.Pkgs[i].PkgPath < p.Pkgs[j].PkgPath })
	if len(p.Pkgs) == 0 {
		return nil, fmt.Errorf("load: no package of module %s under %s", ModPath, dir)
	}
	return p, nil
}

// Pkg returns the module package with the given path relative to the module root.
func (p *Prog) Pkg(rel string) *packages.Package {
	if rel == "" {
		return p.ByPkg[ModPath]
	}
	return p.ByPkg[ModPath+"/"+rel]
}

// ObjID returns a small stable-within-run id for an object (used in keys).
func (p *Prog) ObjID(o types.Object) int {
	if id, ok := p.objIDs[o]; ok {
		return id
	}
	id := len(p.objIDs) + 1
	p.objIDs[o] = id
	return id
}

// LookupType finds a named type of a module package.
func (p *Prog) LookupType(pkgRel, name string) *types.TypeName {
	pkg := p.Pkg(pkgRel)
	if pkg == nil {
		return nil
	}
	tn, _ := pkg.Types.Scope().Lookup(name).(*types.TypeName)
	return tn
}

// LookupFunc finds a package-level function ("" recv) or a method of a named type.
func (p *Prog) LookupFunc(pkgRel, recv, name string) *types.Func {
	pkg := p.Pkg(pkgRel)
	if pkg == nil {
		return nil
	}
	if recv == "" {
		f, _ := pkg.Types.Scope().Lookup(name).(*types.Func)
		return f
	}
	tn := p.LookupType(pkgRel, recv)
	if tn == nil {
		return nil
	}
	named, ok := tn.Type().(*types.Named)
	if !ok {
		return nil
	}
	for i := 0; i < named.NumMethods(); i++ {
		if m := named.Method(i); m.Name() == name {
			return m
		}
	}
	return nil
}

// LookupField finds a field of a struct type of a module package.
func (p *Prog) LookupField(pkgRel, typ, field string) *types.Var {
	tn := p.LookupType(pkgRel, typ)
	if tn == nil {
		return nil
	}
	st, ok := tn.Type().Underlying().(*types.Struct)
	if !ok {
		return nil
	}
	for i := 0; i < st.NumFields(); i++ {
		if f := st.Field(i); f.Name() == field {
			return f
		}
	}
	return nil
}

// Decl returns the declaration of a module function (by origin), or nil.
func (p *Prog) Decl(f *types.Func) *FuncDecl {
	if f == nil {
		return nil
	}
	return p.Funcs[f.Origin()]
}

// Pos renders a position relative to the repository root.
func (p *Prog) Pos(pos token.Pos) string {
	if !pos.IsValid() {
		return "-"
	}
	ps := p.Fset.Position(pos)
	rel, err := filepath.Rel(p.Dir, ps.Filename)
	if err != nil {
		rel = ps.Filename
	}
	return fmt.Sprintf("%s:%d", rel, ps.Line)
}

// FuncName renders a function as pkg.(*T).M / pkg.F with the package path relative to the module.
func FuncName(f *types.Func) string {
	if f == nil {
		return "<nil>"
	}
	f = f.Origin()
	pkg := ""
	if f.Pkg() != nil {
		pkg = strings.TrimPrefix(strings.TrimPrefix(f.Pkg().Path(), ModPath), "/")
		if pkg == "" {
			pkg = f.Pkg().Name()
		}
	}
	sig, _ := f.Type().(*types.Signature)
	if sig != nil && sig.Recv() != nil {
		t := sig.Recv().Type()
		ptr := ""
		if pt, ok := t.(*types.Pointer); ok {
			t = pt.Elem()
			ptr = "*"
		}
		name := "?"
		if n, ok := t.(*types.Named); ok {
			name = n.Obj().Name()
		}
		return fmt.Sprintf("%s.(%s%s).%s", pkg, ptr, name, f.Name())
	}
	return pkg + "." + f.Name()
}

// InModule reports whether the object is declared in the module.
func InModule(o types.Object) bool {
	return o != nil && o.Pkg() != nil && strings.HasPrefix(o.Pkg().Path(), ModPath)
}

// RecvNamed returns the named type of a method's receiver (through a pointer), or nil.
func RecvNamed(f *types.Func) *types.Named {
	sig, _ := f.Type().(*types.Signature)
	if sig == nil || sig.Recv() == nil {
		return nil
	}
	t := sig.Recv().Type()
	if pt, ok := t.(*types.Pointer); ok {
		t = pt.Elem()
	}
	n, _ := t.(*types.Named)
	return n
}

// EnclosingDecl returns the declared module function whose source range contains pos.
func (p *Prog) EnclosingDecl(pos token.Pos) *FuncDecl {
	for _, d := range p.Funcs {
		if d.Decl.Pos() <= pos && pos < d.Decl.End() {
			return d
		}
	}
	return nil
}
