package rules

import (
	"go/ast"
	"go/token"
	"go/types"
	"strconv"

	"utilverif/internal/core"
)

// flow is a small forward dataflow over one path: it tracks which "sources" (reads of selected
// fields) the value of each local derives from, across assignments, inlined calls and returns.

type flowSource struct {
	Field *types.Var
	Base  string // key of the base expression
	Ev    *core.Event
	Idx   int
}

type taint map[*flowSource]bool

func (t taint) union(o taint) taint {
	if len(o) == 0 {
		return t
	}
	n := taint{}
	for k := range t {
		n[k] = true
	}
	for k := range o {
		n[k] = true
	}
	return n
}

type flow struct {
	prog     *core.Prog
	isSource func(f *types.Var) bool
	locals   map[*types.Var]taint
	alias    map[types.Object]string // parameter -> key of the caller-side identifier
	retTaint map[*core.Event][]taint
	nilLocal map[*types.Var]bool // local currently holds the nil literal
	idx      int
	// superseded: sources whose value was replaced, in the local that held it, by another chain value
	superseded map[*flowSource]bool
}

func newFlow(p *core.Prog, isSource func(*types.Var) bool) *flow {
	return &flow{prog: p, isSource: isSource, locals: map[*types.Var]taint{}, alias: map[types.Object]string{},
		retTaint: map[*core.Event][]taint{}, nilLocal: map[*types.Var]bool{}}
}

// key renders an identifier/selector chain canonically across inlined frames.
func (f *flow) key(e ast.Expr, fr *core.Frame) string {
	switch x := unparen(e).(type) {
	case *ast.Ident:
		info := fr.Info()
		o := info.Uses[x]
		if o == nil {
			o = info.Defs[x]
		}
		if o == nil {
			return x.Name
		}
		if a, ok := f.alias[o]; ok {
			return a
		}
		return o.Name() + "#" + strconv.Itoa(f.prog.ObjID(o))
	case *ast.SelectorExpr:
		if fv := fieldVar(x, fr); fv != nil {
			return f.key(x.X, fr) + "." + fv.Name()
		}
		return core.ExprString(x)
	case *ast.IndexExpr:
		return f.key(x.X, fr) + "[" + f.key(x.Index, fr) + "]"
	case *ast.StarExpr:
		return f.key(x.X, fr)
	case *ast.UnaryExpr:
		return f.key(x.X, fr)
	}
	return "expr@" + strconv.Itoa(int(e.Pos()))
}

// taintOf computes the sources an expression's value derives from.
func (f *flow) taintOf(e ast.Expr, fr *core.Frame, at *core.Event) taint {
	switch x := unparen(e).(type) {
	case *ast.Ident:
		if v := identVar(x, fr); v != nil {
			return f.locals[v]
		}
	case *ast.SelectorExpr:
		if fv := fieldVar(x, fr); fv != nil && f.isSource(fv) {
			s := &flowSource{Field: fv, Base: f.key(x.X, fr), Ev: at, Idx: f.idx}
			return taint{s: true}
		}
	}
	return nil
}

func isNilExpr(e ast.Expr, fr *core.Frame) bool {
	id, ok := unparen(e).(*ast.Ident)
	if !ok {
		return false
	}
	_, isNil := fr.Info().Uses[id].(*types.Nil)
	return isNil
}

// step consumes one event (call in path order).
func (f *flow) step(i int, ev *core.Event) {
	f.idx = i
	switch ev.Kind {
	case core.KEnter:
		in := ev.Inner
		ft := in.FuncType()
		if ft == nil || ev.Call == nil {
			return
		}
		info := in.Info()
		j := 0
		for _, fl := range ft.Params.List {
			for _, n := range fl.Names {
				if o, ok := info.Defs[n].(*types.Var); ok && j < len(ev.Call.Args) && in.CS == nil {
					arg := ev.Call.Args[j]
					f.locals[o] = f.taintOf(arg, ev.Frame, ev)
					f.nilLocal[o] = isNilExpr(arg, ev.Frame)
					if _, isId := unparen(arg).(*ast.Ident); isId {
						f.alias[o] = f.key(arg, ev.Frame)
						if v := identVar(arg, ev.Frame); v != nil && f.nilLocal[v] {
							f.nilLocal[o] = true
						}
					}
				}
				j++
			}
			if len(fl.Names) == 0 {
				j++
			}
		}
		if in.Decl != nil && in.Decl.Recv != nil && len(in.Decl.Recv.List) == 1 && len(in.Decl.Recv.List[0].Names) == 1 {
			if sel, ok := unparen(ev.Call.Fun).(*ast.SelectorExpr); ok {
				if o := info.Defs[in.Decl.Recv.List[0].Names[0]]; o != nil {
					f.alias[o] = f.key(sel.X, ev.Frame)
				}
			}
		}
	case core.KReturn:
		var ts []taint
		for _, r := range ev.Results {
			ts = append(ts, f.taintOf(r, ev.Frame, ev))
		}
		if len(ev.Results) == 0 {
			// bare return with named results
			if ft := ev.Frame.FuncType(); ft != nil && ft.Results != nil {
				for _, fl := range ft.Results.List {
					for _, n := range fl.Names {
						if o, ok := ev.Frame.Info().Defs[n].(*types.Var); ok {
							ts = append(ts, f.locals[o])
						}
					}
				}
			}
		}
		f.retTaint[ev] = ts
	case core.KAssign:
		if ev.FieldInit {
			return
		}
		v := identVar(ev.Lhs, ev.Frame)
		if v == nil || v.IsField() {
			return
		}
		var t taint
		isNil := false
		switch {
		case ev.RetEv != nil:
			ts := f.retTaint[ev.RetEv]
			idx := ev.RhsIdx
			if idx < 0 {
				idx = 0
			}
			if idx < len(ts) {
				t = ts[idx]
			}
		case ev.Rhs != nil && ev.RhsIdx < 0:
			t = f.taintOf(ev.Rhs, ev.Frame, ev)
			isNil = isNilExpr(ev.Rhs, ev.Frame)
			if rv := identVar(ev.Rhs, ev.Frame); rv != nil && f.nilLocal[rv] {
				isNil = true
			}
		case ev.Rhs == nil && ev.Define:
			isNil = true // var x T
		}
		if ev.Tok != token.ASSIGN && ev.Tok != token.DEFINE {
			t = f.locals[v].union(t)
		}
		// a local that held a chain value is given another chain value: the newer predecessor takes
		// precedence over the older one (the same decision as not reading the older one at all)
		if len(t) > 0 {
			for src := range f.locals[v] {
				if _, still := t[src]; !still {
					if f.superseded == nil {
						f.superseded = map[*flowSource]bool{}
					}
					f.superseded[src] = true
				}
			}
		}
		f.locals[v] = t
		f.nilLocal[v] = isNil
	}
}
