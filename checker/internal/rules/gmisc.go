package rules

import (
	"go/ast"
	"go/token"
	"go/types"
	"sort"
	"strings"

	"golang.org/x/tools/go/types/typeutil"

	"utilverif/internal/core"
)

func init() {
	register(&Rule{ID: "Gpromise", Text: gpromiseText, Run: runGpromise})
	register(&Rule{ID: "Gccall", Text: gccallText, Run: runGccall})
	register(&Rule{ID: "Gconc", Text: gconcText, Run: runGconc})
	register(&Rule{ID: "Gccontainer", Text: gccontainerText, Run: runGccontainer})
}

const gpromiseText = `R8/R9 promise, Once, MemoizeFunc. Promise.SetResult writes result/err and closes done only after winning isDone.Swap(true), and returns true exactly on that path; the Await* methods are single selects without default and without loop whose done arm is the only place the result is returned. Once.Resolve spawns the callback goroutine only under o.prom == nil in the section that stores the new promise; o.prom is cleared only under the lock, only under the identity test o.prom == prom and only when the error returned by the callback itself is non-nil; every path of the goroutine completes the promise; every trip around Resolve's loop passes the caller's ctx.Err() test. MemoizeFunc calls fn only after winning started.Swap(true), with close(done) deferred before the call.`

const gccallText = `R13a/R6a/R12 ccall. Each worker performs exactly one running-- on every path, inside a section of the local Broadcast that also broadcasts; exitErr is overwritten exactly when the worker's error is non-nil and exitErr is nil or context.Canceled; each go callFunc(fn) follows a running++ of the same loop iteration and a fn != nil test; the single-function fast path tests fns[0] != nil; subCtxCancel is deferred before any blocking or spawning; the waiting loop returns the exitErr sampled in its section.`

const gconcText = `R12/R13b conc queue. A worker is spawned (running++ with go executeJob) exactly under maxConcurrency <= 0 || running < maxConcurrency in the same section; in Enqueue each job goes to exactly one of {go executeJob, jobQueue.Push with jobQueueSize++}; executeJob retires (running--) only when the Pop made in the same section failed, and a popped job is accompanied by jobQueueSize--; producers never use PushFront.`

const gccontainerText = `R12 ccontainer. SwapValue reads the value, calls the client callback and stores the result in one critical section of the container's Broadcast; SetValue/SwapValue store only when the new value differs (compare); the Wait* wrappers delegate to WaitValueWithValidator.`

func isAtomicCall(ev *core.Event, names ...string) bool {
	if ev.Kind != core.KCall || ev.Callee == nil || ev.Callee.Pkg() == nil || ev.Callee.Pkg().Path() != "sync/atomic" {
		return false
	}
	for _, n := range names {
		if ev.Callee.Name() == n {
			return true
		}
	}
	return false
}

func runGpromise(c *Ctx) {
	a := newAgg(c)
	defer a.flush()
	// --- Promise.SetResult
	if d := c.declByName("R9", "promise", "Promise", "SetResult"); d != nil {
		name := core.FuncName(d.Obj)
		// the election: winning Swap(true) (it returned false) or winning CompareAndSwap(false, true)
		won := for_(fnot(fld("promise.Promise.isDone.Swap(true)")), fld("promise.Promise.isDone.CompareAndSwap(false,true)"))
		c.Walk("R9", &core.Config{Follow: samePkgFollow(d.Pkg.PkgPath)}, core.Entry{Decl: d}, func(p *core.Path) {
			g := prepare(c, p)
			wrote := false
			closeIdx := -1
			for i, ev := range p.Events {
				if assignsField(ev, "promise.Promise.result", "") || assignsField(ev, "promise.Promise.err", "") {
					wrote = true
					a.requireGuard("R9", name+"/write-after-election", g, i, false, won, "writing the result")
					a.note("R9", name+"/write-before-close", ev.Pos, closeIdx >= 0, "the result is written before done is closed", "a result field is written after done was closed: an awaiter can read it before or while it is written", p)
				}
				if ev.Kind == core.KClose {
					closeIdx = i
					a.requireGuard("R9", name+"/close-after-election", g, i, false, won, "closing done")
				}
				if ev.Kind == core.KReturn && ev.Frame.Parent == nil && len(ev.Results) == 1 {
					if id, ok := unparen(ev.Results[0]).(*ast.Ident); ok && id.Name == "true" {
						a.note("R9", name+"/true-iff-winner", ev.Pos, !(wrote && closeIdx >= 0), "true is returned exactly by the call that stored the result and closed done", "SetResult returns true on a path that did not store the result and close done", p)
					} else if ok && id.Name == "false" {
						a.note("R9", name+"/true-iff-winner", ev.Pos, wrote || closeIdx >= 0, "true is returned exactly by the call that stored the result and closed done", "SetResult returns false on a path that wrote the result or closed done", p)
					}
				}
			}
		})
		a.expect("R9", name+"/write-after-election", 1, "the result writes in SetResult")
		a.expect("R9", name+"/close-after-election", 1, "close(done) in SetResult")
	}
	for _, fn := range []string{"Await", "AwaitWithErrCh", "AwaitWithCancelCh"} {
		d := c.declByName("R9", "promise", "Promise", fn)
		if d == nil {
			continue
		}
		name := core.FuncName(d.Obj)
		// path-based (an await that delegates to a sibling await is judged through the delegation): every
		// returning path blocks in exactly one select without default and passes no loop; the stored
		// result (the result/err fields) is read only after the receive from done
		c.Walk("R9", &core.Config{EmitAccess: true, Follow: samePkgFollow(d.Pkg.PkgPath)}, core.Entry{Decl: d}, func(p *core.Path) {
			gotDone := false
			nsel, nloop, ndef := 0, 0, 0
			for _, ev := range p.Events {
				switch ev.Kind {
				case core.KSelect:
					if ev.HasDefault {
						ndef++
					} else {
						nsel++
					}
				case core.KLoop, core.KRange, core.KHavoc:
					nloop++
				case core.KRecv:
					if fv := fieldVar(ev.Chan, ev.Frame); fv != nil && core.FieldName(fv) == "promise.Promise.done" {
						gotDone = true
					}
				case core.KAccess:
					if !ev.Write && ev.Var != nil && ev.Var.IsField() {
						if fn := core.FieldName(ev.Var); fn == "promise.Promise.result" || fn == "promise.Promise.err" {
							a.note("R9", name+"/result-only-after-done", ev.Pos, !gotDone, "the stored result is read only after the receive from done", "the stored result is read on a path that did not receive from done", p)
						}
					}
				}
			}
			if p.End == core.EndReturn {
				a.note("R9", name+"/blocking-select", d.Decl.Pos(), !(nsel == 1 && nloop == 0 && ndef == 0),
					"one select, no default clause, no loop on every path: the await blocks without polling",
					sprintf("a path of the await is not a single blocking select (selects=%d, default clauses=%d, loops=%d): it may poll or spin", nsel, ndef, nloop), p)
			}
		})
	}
	// --- every function that closes a Promise's done channel also arms isDone on that path (a
	// pre-resolved promise must refuse a later SetResult exactly like one resolved by SetResult)
	closesDone := func(d *core.FuncDecl, n ast.Node) bool {
		call, ok := n.(*ast.CallExpr)
		if !ok || len(call.Args) != 1 {
			return false
		}
		id, ok := unparen(call.Fun).(*ast.Ident)
		if !ok || id.Name != "close" {
			return false
		}
		fv := fieldVar(call.Args[0], &core.Frame{Pkg: d.Pkg})
		return fv != nil && core.FieldName(fv) == "promise.Promise.done"
	}
	for _, d := range pkgDecls(c, "promise") {
		// the exported functions from which the close is reached (helpers walked in place)
		if !d.Obj.Exported() || !bodyOrCalleesMatch(c, d, closesDone, 2) {
			continue
		}
		d := d
		name := core.FuncName(d.Obj)
		c.Walk("R9", &core.Config{Follow: helperFollow("promise")}, core.Entry{Decl: d}, func(p *core.Path) {
			if p.End != core.EndReturn {
				return
			}
			closed, armed := token.NoPos, false
			for _, ev := range p.Events {
				if ev.Kind == core.KClose {
					if fv := fieldVar(ev.Chan, ev.Frame); fv != nil && core.FieldName(fv) == "promise.Promise.done" {
						closed = ev.Pos
					}
				}
				if ev.Kind == core.KCall && ev.Callee != nil && ev.Callee.Pkg() != nil && ev.Callee.Pkg().Path() == "sync/atomic" && len(ev.Call.Args) >= 1 {
					if fv := fieldVar(callRecv(ev.Call), ev.Frame); fv != nil && core.FieldName(fv) == "promise.Promise.isDone" {
						last := ev.Call.Args[len(ev.Call.Args)-1]
						if tv, ok := ev.Frame.Info().Types[unparen(last)]; ok && tv.Value != nil && tv.Value.ExactString() == "true" {
							armed = true
						}
					}
				}
			}
			if closed.IsValid() {
				a.note("R9", name+"/close-arms-isDone", closed, !armed,
					"a path that closes done also sets isDone (Swap/Store/CompareAndSwap to true)",
					"a path closes the promise's done channel without setting isDone: a later SetResult wins the election again, overwrites the published result and closes the channel a second time", p)
			}
		})
	}
	// --- PromiseContainer: a method called on the sampled promise is guarded by a nil test made
	// after that sample was taken
	for _, fn := range []string{"Await", "AwaitWithErrCh", "AwaitWithCancelCh"} {
		d := c.declByName("R6a", "promise", "PromiseContainer", fn)
		if d == nil {
			continue
		}
		name := core.FuncName(d.Obj)
		c.Walk("R6a", &core.Config{Follow: samePkgFollow(d.Pkg.PkgPath)}, core.Entry{Decl: d}, func(p *core.Path) {
			g := prepare(c, p)
			lastAssign := map[*types.Var]int{}
			type tupleSrc struct {
				call *ast.CallExpr
				idx  int
			}
			fromCall := map[*types.Var]tupleSrc{}
			for i, ev := range p.Events {
				if ev.Kind == core.KAssign && !ev.FieldInit {
					if v := identVar(ev.Lhs, ev.Frame); v != nil && !v.IsField() {
						lastAssign[v] = i
						delete(fromCall, v)
						if call, ok := unparen(ev.Rhs).(*ast.CallExpr); ok && ev.Rhs != nil && ev.RhsIdx >= 0 {
							fromCall[v] = tupleSrc{call, ev.RhsIdx}
						}
					}
				}
				// the pair handed back is the pair one await produced: an error that came out of an await
				// of the sampled promise is returned together with the value of that same await
				if ev.Kind == core.KReturn && ev.Frame.Parent == nil && len(ev.Results) == 2 {
					if e := identVar(ev.Results[1], ev.Frame); e != nil {
						if src, ok := fromCall[e]; ok && src.idx == 1 {
							if rv := identVar(callRecv(src.call), ev.Frame); rv != nil {
								if n, isN := rv.Type().(*types.Named); isN && n.Obj().Name() == "PromiseLike" {
									w := identVar(ev.Results[0], ev.Frame)
									same := false
									if w != nil {
										ws, has := fromCall[w]
										same = has && ws.call == src.call && ws.idx == 0
									}
									a.note("R9", name+"/returns-result-pair-of-await", ev.Pos, !same,
										"an error produced by awaiting the sampled promise is returned with the value of that same await",
										"the function returns the error of the promise's await together with "+core.ExprString(ev.Results[0])+", which is not the value that await produced: a result that carries both a value and an error loses its value in the container's awaiters", p)
								}
							}
						}
					}
				}
				if ev.Kind != core.KCall || ev.Callee == nil || ev.Frame.Parent != nil {
					continue
				}
				rv := identVar(callRecv(ev.Call), ev.Frame)
				if rv == nil || rv.IsField() {
					continue
				}
				if _, isIface := rv.Type().Underlying().(*types.Interface); !isIface {
					continue
				}
				if n, ok := rv.Type().(*types.Named); !ok || n.Obj().Name() != "PromiseLike" {
					continue
				}
				var since []*r2Lit
				for j := lastAssign[rv] + 1; j < i; j++ {
					if g.lits[j] != nil {
						since = append(since, g.lits[j])
					}
				}
				ok, _ := implies(since, fnot(eq("nil", c.Role(rv))))
				a.note("R6a", name+"/sampled-promise-non-nil", ev.Pos, !ok,
					"a method is called on the sampled promise only after a nil test of that sample",
					"a method is called on the promise sampled from the container without a nil test made after the sample was taken: the container can be empty (again) at that moment and the call dereferences nil", p)
			}
		})
		a.expect("R6a", name+"/sampled-promise-non-nil", 1, "the await on the sampled promise")
	}
	// --- Once
	if d := c.declByName("R8", "promise", "Once", "Resolve"); d != nil {
		name := core.FuncName(d.Obj)
		var goDecl *core.FuncDecl // the goroutine body when it is a method instead of a literal
		goLits := map[*ast.FuncLit]*core.FuncDecl{}
		c.Walk("R8", &core.Config{Follow: samePkgFollow(d.Pkg.PkgPath)}, core.Entry{Decl: d}, func(p *core.Path) {
			g := prepare(c, p)
			storeIdx := -1
			// every cycle passes the ctx.Err() test
			lastLoop := -1
			sawCtxTest := false
			checkCycle := func(pos token.Pos) {
				if lastLoop >= 0 {
					a.note("R8", name+"/cycle-tests-context", pos, !sawCtxTest,
						"every trip around the loop tests the caller's ctx.Err()",
						"the loop can go around without testing the caller's context: a caller whose context is cancelled never gets context.Canceled and spins", p)
				}
			}
			for i, ev := range p.Events {
				if ev.Kind == core.KLoop {
					if _, ok := ev.Node.(*ast.ForStmt); ok && ev.Frame.Parent == nil {
						checkCycle(ev.Pos)
						lastLoop, sawCtxTest = i, false
					}
				}
				if l := g.lits[i]; l != nil && strings.Contains(l.f.String(), paramRole(c, d, isContextType)+".Err()") {
					sawCtxTest = true
				}
				if assignsField(ev, "promise.Once.prom", "") && ev.Rhs != nil && !isNilExpr(ev.Rhs, ev.Frame) {
					storeIdx = i
				}
				if ev.Kind == core.KGo && (ev.FunVal.Kind == core.VFuncLit || c.Prog.Decl(ev.Callee) != nil) {
					if ev.FunVal.Kind != core.VFuncLit {
						goDecl = c.Prog.Decl(ev.Callee)
					} else if od := c.Prog.EnclosingDecl(ev.FunVal.Lit.Pos()); od != nil && od != d {
						goLits[ev.FunVal.Lit] = od // the go statement lives in a helper Resolve calls
					}
					a.requireGuard("R8", name+"/single-flight", g, i, false, eq("nil", "promise.Once.prom"), "starting the callback goroutine")
					a.note("R8", name+"/single-flight/same-section", ev.Pos, !(storeIdx >= 0 && g.sec[storeIdx] == g.sec[i] && g.sec[i] >= 0),
						"the new promise is stored in the section that found none and spawned the goroutine",
						"the goroutine is spawned outside the critical section that found o.prom == nil and stored the new promise: two callers can both start the callback", p)
				}
			}
			if p.End == core.EndLoopCut {
				checkCycle(d.Decl.Pos())
			}
		})
		a.expect("R8", name+"/single-flight", 1, "the go statement in Once.Resolve")
		// the goroutine: the literal(s) started with go, or the method the body was moved into
		type goEntry struct {
			e     core.Entry
			lname string
		}
		var ges []goEntry
		for li, l := range escapingLits(c, d) {
			ges = append(ges, goEntry{core.Entry{Lit: l, Pkg: d.Pkg, Outer: d, Name: sprintf("%s.go#%d", name, li+1)}, sprintf("%s.go#%d", name, li+1)})
		}
		if goDecl != nil {
			ges = append(ges, goEntry{core.Entry{Decl: goDecl}, name + ".go#1"})
		}
		var gls []*ast.FuncLit
		for l := range goLits {
			gls = append(gls, l)
		}
		sort.Slice(gls, func(i, j int) bool { return gls[i].Pos() < gls[j].Pos() })
		for li, l := range gls {
			od := goLits[l]
			ges = append(ges, goEntry{core.Entry{Lit: l, Pkg: od.Pkg, Outer: od, Name: sprintf("%s.go#%d", name, li+1)}, sprintf("%s.go#%d", name, li+1)})
		}
		// o.prom is cleared only by the callback goroutine (after the callback returned): no path of an
		// exported method's own goroutine (helpers walked in place; the go body is not part of it)
		// sets it to nil — that would let a second callback run start while the first still executes
		for _, od := range pkgDecls(c, "promise") {
			od := od
			if rn := core.RecvNamed(od.Obj); rn == nil || rn.Obj().Name() != "Once" || !od.Obj.Exported() {
				continue
			}
			c.Walk("R8", &core.Config{Follow: func(f *types.Func) bool {
				if goDecl != nil && f.Origin() == goDecl.Obj {
					return false
				}
				return helperFollow("promise")(f)
			}}, core.Entry{Decl: od}, func(p *core.Path) {
				for _, ev := range p.Events {
					if assignsField(ev, "promise.Once.prom", "nil") {
						a.note("R8", core.FuncName(od.Obj)+"/clear-only-in-callback-goroutine", ev.Pos, true, "",
							"o.prom is set to nil on the calling goroutine's own path ("+enclosingName(c, ev)+"): the attempt in flight is forgotten while its callback is still running, and the next Resolve starts a second, overlapping run", p)
					}
				}
				if p.End == core.EndReturn || p.End == core.EndLoopCut {
					a.note("R8", core.FuncName(od.Obj)+"/clear-only-in-callback-goroutine", od.Decl.Pos(), false, "o.prom is cleared only by the goroutine that ran the callback", "", p)
				}
			})
		}
		for _, ge := range ges {
			lname := ge.lname
			// the promise being resolved: the *Promise local of Resolve, or the *Promise parameter of the method
			promRole := "?prom"
			isProm := func(t types.Type) bool {
				pt, ok := t.(*types.Pointer)
				if !ok {
					return false
				}
				n, ok := pt.Elem().(*types.Named)
				return ok && n.Obj().Name() == "Promise"
			}
			if ge.e.Decl != nil {
				promRole = paramRole(c, ge.e.Decl, isProm)
			} else {
				// the *Promise local of the function the literal lives in (Resolve, or the helper it calls)
				od := d
				if ge.e.Outer != nil {
					od = ge.e.Outer
				}
				if v := localWhere(od, od.Decl, func(v *types.Var, _ *ast.Ident) bool { return isProm(v.Type()) }); v != nil {
					promRole = c.Role(v)
				}
				// … or the *Promise parameter of the goroutine literal itself (go func(started *Promise){…}(prom))
				if ge.e.Lit != nil && ge.e.Lit.Type.Params != nil {
					for _, f := range ge.e.Lit.Type.Params.List {
						for _, n := range f.Names {
							if pv, _ := ge.e.Pkg.TypesInfo.Defs[n].(*types.Var); pv != nil && isProm(pv.Type()) {
								promRole = c.Role(pv)
							}
						}
					}
				}
			}
			c.Walk("R8", &core.Config{Follow: samePkgFollow(d.Pkg.PkgPath)}, ge.e, func(p *core.Path) {
				g := prepare(c, p)
				cbIdx := -1
				var errVar *types.Var
				errFromCb := false
				completed := false
				cleared := false
				for i, ev := range p.Events {
					// the identity test failed: somebody else already replaced the promise
					if l := g.lits[i]; l != nil {
						if ok, _ := implies([]*r2Lit{l}, fnot(eq("promise.Once.prom", promRole))); ok {
							cleared = true
						}
					}
					if callsField(ev, "promise.Once.cb") {
						cbIdx = i
					}
					if ev.Kind == core.KAssign && !ev.FieldInit {
						if v := identVar(ev.Lhs, ev.Frame); v != nil {
							if cbIdx >= 0 && ev.Rhs != nil && ev.RhsIdx == 1 && unparen(ev.Rhs) == ast.Expr(p.Events[cbIdx].Call) {
								errVar, errFromCb = v, true
							} else if v == errVar {
								errFromCb = false // reassigned from something else
							}
						}
					}
					if (ev.Kind == core.KCall || ev.Kind == core.KEnter) && ev.Callee != nil && ev.Callee.Name() == "SetResult" {
						completed = true
						// any completion that may carry an error (the error argument is not nil and not
						// known nil on this path) happens after the promise was taken out of the Once
						if ev.Call != nil && len(ev.Call.Args) == 2 && !isNilExpr(ev.Call.Args[1], ev.Frame) {
							knownNil := false
							if v := identVar(ev.Call.Args[1], ev.Frame); v != nil {
								knownNil, _ = implies(g.litsBefore(i, false), eq(c.Role(v), "nil"))
							}
							if !knownNil {
								a.note("R8", lname+"/failure-published-only-after-clear", ev.Pos, !cleared,
									"a completion that may carry an error happens only after the promise was removed from the Once",
									"the goroutine completes the promise with "+core.ExprString(ev.Call.Args[1])+" while the promise is still installed in the Once: every later Resolve is handed this failure and the function is never called again", p)
							}
						}
						if errVar != nil && errFromCb {
							if failed, _ := implies(g.litsBefore(i, false), fnot(eq(c.Role(errVar), "nil"))); failed {
								a.note("R8", lname+"/clear-before-complete", ev.Pos, !cleared,
									"a failed call's promise is removed from the Once before it is completed",
									"the promise of a failed call is completed while it is still installed in the Once: a Resolve that starts in that window is handed the stale failure instead of calling the function again", p)
							}
						}
					}
					if assignsField(ev, "promise.Once.prom", "nil") {
						cleared = true
						want := eq("promise.Once.prom", promRole)
						if errVar != nil {
							want = fand(want, fnot(eq(c.Role(errVar), "nil")))
						}
						a.requireGuard("R8", lname+"/clear-on-failure", g, i, false, want, "clearing o.prom")
						a.note("R8", lname+"/clear-on-failure/own-error", ev.Pos, !(cbIdx >= 0 && errFromCb),
							"o.prom is cleared only on the error the callback itself returned, after it returned",
							"o.prom is cleared on a path on which the tested error is not (only) the callback's own result, or before the callback returned: a successful result can be thrown away and the callback run again", p)
						a.note("R8", lname+"/clear-on-failure/locked", ev.Pos, !holdsLock(ev, "promise.Once.mtx"), "o.prom is cleared under mtx", "o.prom is cleared without mtx", p)
					}
				}
				if p.End == core.EndReturn && ev0Frame(p) {
					a.note("R8", lname+"/completes-promise", entryPos(ge.e), !completed, "every path of the goroutine completes the promise", "a path of the goroutine ends without completing the promise: awaiters block forever", p)
				}
			})
			a.expect("R8", lname+"/clear-on-failure", 1, "o.prom = nil in the callback goroutine")
		}
	}
	// --- MemoizeFunc
	if d := c.declByName("R8", "memo", "", "MemoizeFunc"); d != nil {
		name := core.FuncName(d.Obj)
		pv := paramVars(d)
		// the memoized function: the returned closure(s), or the method whose value is returned
		type memoEntry struct {
			e     core.Entry
			lname string
		}
		var mes []memoEntry
		// (the closures of the memoized function's own type — a helper closure such as a deferred
		// publish step is part of the body of the one that calls it)
		var resT types.Type
		if sig, ok := d.Obj.Type().(*types.Signature); ok && sig.Results().Len() == 1 {
			resT = sig.Results().At(0).Type()
		}
		// … and of those, the ones MemoizeFunc itself returns (directly or through the local they are bound
		// to); closures the returned one calls are walked in place
		returned := map[*ast.FuncLit]bool{}
		{
			ei := core.EscapesOf(c.Prog, d)
			var visit func(n ast.Node)
			visit = func(n ast.Node) {
				ast.Inspect(n, func(x ast.Node) bool {
					if _, isLit := x.(*ast.FuncLit); isLit {
						return false // returns of nested literals are not MemoizeFunc's
					}
					if rs, ok := x.(*ast.ReturnStmt); ok {
						for _, r := range rs.Results {
							switch y := unparen(r).(type) {
							case *ast.FuncLit:
								returned[y] = true
							case *ast.Ident:
								for _, bl := range ei.Bound[d.Pkg.TypesInfo.Uses[y]] {
									returned[bl] = true
								}
							}
						}
					}
					return true
				})
			}
			visit(d.Decl.Body)
		}
		li := 0
		for _, l := range escapingLits(c, d) {
			if lt := d.Pkg.TypesInfo.TypeOf(l); resT != nil && lt != nil && !types.Identical(lt, resT) {
				continue
			}
			if len(returned) > 0 && !returned[l] {
				continue
			}
			li++
			lname := sprintf("%s.func#%d", name, li)
			mes = append(mes, memoEntry{core.Entry{Lit: l, Pkg: d.Pkg, Outer: d, Name: lname}, lname})
		}
		ast.Inspect(d.Decl.Body, func(n ast.Node) bool {
			if rs, ok := n.(*ast.ReturnStmt); ok {
				for _, r := range rs.Results {
					if se, ok := unparen(r).(*ast.SelectorExpr); ok {
						if sel, ok := d.Pkg.TypesInfo.Selections[se]; ok && sel.Kind() == types.MethodVal {
							if md := c.Prog.Decl(sel.Obj().(*types.Func).Origin()); md != nil {
								mes = append(mes, memoEntry{core.Entry{Decl: md}, name + "→" + core.FuncName(md.Obj)})
							}
						}
					}
				}
			}
			return true
		})
		if len(mes) == 0 {
			c.MissingAnchor("R8", name+": the function MemoizeFunc returns (a closure or a method value)")
		}
		var fnType types.Type
		if len(pv) > 0 && pv[0] != nil {
			fnType = pv[0].Type()
		}
		for _, me := range mes {
			lname := me.lname
			c.Walk("R8", &core.Config{Follow: samePkgFollow(d.Pkg.PkgPath)}, me.e, func(p *core.Path) {
				g := prepare(c, p)
				closeDeferred := false
				for i, ev := range p.Events {
					if ev.Kind == core.KDefer && ev.Call != nil {
						if id, ok := unparen(ev.Call.Fun).(*ast.Ident); ok && id.Name == "close" {
							closeDeferred = true
						}
						// … or a local closure whose body closes a channel (defer publish())
						if ev.FunVal.Kind == core.VFuncLit && ev.FunVal.Lit != nil {
							ast.Inspect(ev.FunVal.Lit.Body, func(n ast.Node) bool {
								if call, ok := n.(*ast.CallExpr); ok {
									if id, ok := unparen(call.Fun).(*ast.Ident); ok && id.Name == "close" {
										if _, isB := ev.Frame.Info().ObjectOf(id).(*types.Builtin); isB {
											closeDeferred = true
										}
									}
								}
								return true
							})
						}
					}
					// the call of the function being memoized: a dynamic call of the parameter, or of a field
					// of the parameter's type that holds it
					isFnCall := false
					if ev.Kind == core.KCall && ev.Callee == nil && ev.Builtin == "" && fnType != nil {
						if identVar(ev.Call.Fun, ev.Frame) == pv[0] {
							isFnCall = true
						} else if fv := fieldVar(ev.Call.Fun, ev.Frame); fv != nil && types.Identical(fv.Origin().Type(), fnType) {
							isFnCall = true
						} else if t := ev.Frame.Info().TypeOf(ev.Call.Fun); t != nil && fieldVar(ev.Call.Fun, ev.Frame) != nil {
							if _, isSig := t.Underlying().(*types.Signature); isSig && t.String() == fnType.String() {
								isFnCall = true
							}
						}
					}
					if isFnCall {
						// the election: the one atomic Swap(true) the preceding conditions talk about
						want := fnot(fld("?started.Swap(true)"))
						var elect []string
						for _, l := range g.litsBefore(i, false) {
							ats := map[string]*formula{}
							l.f.atoms(ats)
							for n := range ats {
								if strings.HasPrefix(n, "F(") && (strings.HasSuffix(n, ".Swap(true))") || strings.HasSuffix(n, ".CompareAndSwap(false,true))")) {
									elect = append(elect, n)
								}
							}
						}
						if len(elect) == 1 {
							if strings.HasSuffix(elect[0], ".Swap(true))") {
								want = fnot(atom(elect[0])) // Swap returned the old value false
							} else {
								want = atom(elect[0]) // the CompareAndSwap succeeded
							}
						}
						a.requireGuard("R8", lname+"/call-once", g, i, false, want, "calling the memoized function")
						a.note("R8", lname+"/close-deferred-before-call", ev.Pos, !closeDeferred, "close(done) is deferred before fn is called", "fn is called before close(done) is deferred: if fn panics the other callers block forever, or the result is published before it is written", p)
					}
				}
			})
			a.expect("R8", lname+"/call-once", 1, "the call of fn in MemoizeFunc")
		}
	}
}

func runGccall(c *Ctx) {
	a := newAgg(c)
	defer a.flush()
	d := c.declByName("R13a", "ccall", "", "CallConcurrently")
	if d == nil {
		return
	}
	name := core.FuncName(d.Obj)
	pv := paramVars(d)
	_ = pv
	// the worker closures: escaping literals anywhere in the package (CallConcurrently itself or a
	// helper it delegates the general case to)
	type workerLit struct {
		l *ast.FuncLit
		d *core.FuncDecl
	}
	var workers []workerLit
	// (a worker is a literal started with go — directly or through the local it is bound to; closures
	// it merely calls are part of its body)
	for _, wd := range pkgDecls(c, "ccall") {
		wd := wd
		ei := core.EscapesOf(c.Prog, wd)
		seen := map[*ast.FuncLit]bool{}
		ast.Inspect(wd.Decl.Body, func(n ast.Node) bool {
			gs, ok := n.(*ast.GoStmt)
			if !ok {
				return true
			}
			var ls []*ast.FuncLit
			switch f := unparen(gs.Call.Fun).(type) {
			case *ast.FuncLit:
				ls = append(ls, f)
			case *ast.Ident:
				ls = append(ls, ei.Bound[wd.Pkg.TypesInfo.Uses[f]]...)
			}
			for _, l := range ls {
				if !seen[l] {
					seen[l] = true
					workers = append(workers, workerLit{l, wd})
				}
			}
			return true
		})
	}
	// the body of a worker: its own, and those of the local closures it calls
	workerBodies := func(l *ast.FuncLit, d *core.FuncDecl) []*ast.FuncLit {
		out := []*ast.FuncLit{l}
		ei := core.EscapesOf(c.Prog, d)
		ast.Inspect(l.Body, func(n ast.Node) bool {
			if call, ok := n.(*ast.CallExpr); ok {
				if id, ok := unparen(call.Fun).(*ast.Ident); ok {
					for _, b := range ei.Bound[d.Pkg.TypesInfo.Uses[id]] {
						if b != l {
							out = append(out, b)
						}
					}
				}
			}
			return true
		})
		return out
	}
	entryDecl := d
	for li, wl := range workers {
		l, d := wl.l, wl.d
		lname := sprintf("%s.worker#%d", name, li+1)
		type wp struct {
			lits []*r2Lit
			did  bool
			p    *core.Path
		}
		var wps []wp
		// the shared error (assigned in the worker, declared outside it), the worker's own error and
		// the shared counter it decrements
		var sharedErr, ownErr, counter *types.Var
		outside := func(v *types.Var) bool { // declared outside the worker and the closures it calls
			for _, b := range workerBodies(l, d) {
				if v.Pos() >= b.Pos() && v.Pos() < b.End() {
					return false
				}
			}
			return true
		}
		for _, wb := range workerBodies(l, d) {
			ast.Inspect(wb.Body, func(n ast.Node) bool {
				switch x := n.(type) {
				case *ast.AssignStmt:
					if len(x.Lhs) == 1 && len(x.Rhs) == 1 {
						lv := identVar(x.Lhs[0], &core.Frame{Pkg: d.Pkg})
						if lv != nil && isErrorType(lv.Type()) && outside(baseVar(lv)) {
							sharedErr = lv
							ownErr = identVar(x.Rhs[0], &core.Frame{Pkg: d.Pkg})
						}
					}
				case *ast.IncDecStmt:
					if x.Tok == token.DEC {
						if v := identVar(x.X, &core.Frame{Pkg: d.Pkg}); v != nil && outside(baseVar(v)) {
							counter = v
						}
					}
				}
				return true
			})
		}
		if sharedErr == nil || ownErr == nil {
			c.MissingAnchor("R12", lname+": the assignment of the worker's error to the shared error variable")
			continue
		}
		se, oe := c.Role(sharedErr), c.Role(ownErr)
		want := fand(fnot(eq(oe, "nil")), for_(eq(se, "nil"), eq("context.Canceled", se)))
		c.Walk("R13a", &core.Config{Follow: samePkgFollow(d.Pkg.PkgPath)}, core.Entry{Lit: l, Pkg: d.Pkg, Outer: d, Name: lname}, func(p *core.Path) {
			g := prepare(c, p)
			decs := 0
			wrote := false
			for i, ev := range p.Events {
				if ev.Kind == core.KIncDec && ev.Tok == token.DEC && counter != nil && identVar(ev.Lhs, ev.Frame) == counter {
					decs++
					bc := false
					for j := i; j < len(p.Events) && g.sec[j] == g.sec[i] && g.sec[i] >= 0; j++ {
						if p.Events[j].Kind == core.KBroadcast {
							bc = true
						}
					}
					a.note("R13a", lname+"/decrement-in-broadcasting-section", ev.Pos, !(len(ev.Locks) > 0 && bc),
						"running-- happens under the lock in a section that broadcasts", "running-- happens outside the lock or in a section that does not broadcast: the caller can observe running == 0 before the error is recorded, or is never woken", p)
				}
				if ev.Kind == core.KAssign && !ev.FieldInit {
					if v := identVar(ev.Lhs, ev.Frame); v != nil && v == sharedErr {
						wrote = true
						a.requireGuard("R12", lname+"/record-error", g, i, true, want, "recording the worker's error")
					}
				}
			}
			if p.End == core.EndReturn {
				fnCalls := 0
				for _, ev := range p.Events {
					if ev.Kind == core.KCall && ev.Callee == nil && ev.Builtin == "" && ev.FunVal.Kind == core.VUnknown {
						if v := identVar(ev.Call.Fun, ev.Frame); v != nil && !v.IsField() {
							if _, isSig := v.Type().Underlying().(*types.Signature); isSig {
								fnCalls++
							}
						}
					}
				}
				a.note("R13a", lname+"/one-call-per-worker", l.Pos(), fnCalls != 1, "every path of a worker calls its function exactly once",
					sprintf("a path of the worker calls its function %d times: a function handed to CallConcurrently is skipped (or run twice)", fnCalls), p)
				a.note("R13a", lname+"/one-decrement-per-worker", l.Pos(), decs != 1, "every path of a worker decrements running exactly once", sprintf("a path of the worker performs %d decrements of running (the counter is not the int the caller samples, or a path skips/repeats it)", decs), p)
				wps = append(wps, wp{g.litsBefore(len(p.Events), false), wrote, p})
			}
		})
		for _, w := range wps {
			if w.did {
				continue
			}
			ok, cx := implies(w.lits, fnot(want))
			a.note("R12", lname+"/record-error/complete", l.Pos(), !ok, "a worker that does not record its error has no error to record or a real error is already recorded",
				sprintf("a worker path that does not record its error does not exclude %s (conditions: %s; counterexample %s): a real error can be lost behind an earlier context.Canceled", want, litsString(w.lits), cx), w.p)
		}
		a.expect("R13a", lname+"/decrement-in-broadcasting-section", 1, "running-- in the worker")
		a.expect("R12", lname+"/record-error", 1, "exitErr = err in the worker")
	}
	// the counter the workers decrement and the error they share (found in the worker closures)
	var counterVar, sharedErrVar *types.Var
	d = entryDecl
	for _, wl := range workers {
		l, d := wl.l, wl.d
		for _, wb := range workerBodies(l, d) {
			wb := wb
			in := func(v *types.Var) bool {
				for _, b := range workerBodies(l, d) {
					if v.Pos() >= b.Pos() && v.Pos() < b.End() {
						return true
					}
				}
				return false
			}
			ast.Inspect(wb.Body, func(n ast.Node) bool {
				switch x := n.(type) {
				case *ast.IncDecStmt:
					if v := identVar(x.X, &core.Frame{Pkg: d.Pkg}); v != nil && x.Tok == token.DEC && !in(baseVar(v)) {
						counterVar = v
					}
				case *ast.AssignStmt:
					if len(x.Lhs) == 1 {
						if v := identVar(x.Lhs[0], &core.Frame{Pkg: d.Pkg}); v != nil && isErrorType(v.Type()) && !in(baseVar(v)) {
							sharedErrVar = v
						}
					}
				}
				return true
			})
		}
	}
	c.Walk("R13a", &core.Config{Follow: samePkgFollow(d.Pkg.PkgPath)}, core.Entry{Decl: d}, func(p *core.Path) {
		g := prepare(c, p)
		cancelDeferred := false
		incSince := false
		var cancelVar *types.Var
		for i, ev := range p.Events {
			if ev.Kind == core.KAssign && ev.Rhs != nil && ev.RhsIdx == 1 {
				if call, ok := unparen(ev.Rhs).(*ast.CallExpr); ok && strings.Contains(core.ExprString(call.Fun), "context.With") {
					cancelVar = identVar(ev.Lhs, ev.Frame)
				}
			}
			if ev.Kind == core.KDefer && cancelVar != nil && identVar(ev.Call.Fun, ev.Frame) == cancelVar {
				cancelDeferred = true
			}
			if ev.Kind == core.KLoop {
				incSince = false
			}
			if ev.Kind == core.KIncDec && ev.Tok == token.INC && counterVar != nil && identVar(ev.Lhs, ev.Frame) == counterVar {
				incSince = true
			}
			if ev.Kind == core.KGo {
				var bound []*ast.FuncLit
				if v := identVar(ev.Call.Fun, ev.Frame); v != nil {
					if ed := c.Prog.EnclosingDecl(ev.Pos); ed != nil {
						bound = core.EscapesOf(c.Prog, ed).Bound[v]
					}
				}
				if len(bound) > 0 {
					a.note("R13a", name+"/spawn-counted", ev.Pos, !incSince, "each spawned worker is counted (running++) in the same iteration", "a worker is spawned without running++ in the same iteration: the caller stops waiting before it has finished", p)
					fnRole := "?fn"
					if len(ev.Call.Args) == 1 {
						if av := identVar(ev.Call.Args[0], ev.Frame); av != nil {
							fnRole = c.Role(av)
						}
					}
					a.requireGuard("R6a", name+"/spawn-non-nil", g, i, false, fnot(eq(fnRole, "nil")), "spawning a worker")
					a.note("R13e", name+"/cancel-deferred", ev.Pos, !cancelDeferred, "subCtxCancel is deferred before workers are spawned", "workers are spawned before the sub-context's cancel func is deferred: the context given to the functions is not cancelled when the call returns", p)
				}
			}
			if ev.Kind == core.KCall && ev.Callee == nil && ev.Builtin == "" {
				ix, ok := unparen(ev.Call.Fun).(*ast.IndexExpr)
				var fnE ast.Expr = ix
				if !ok {
					// … or a helper's parameter of the functions' type, called on the calling goroutine
					if v := identVar(ev.Call.Fun, ev.Frame); v != nil && !v.IsField() && len(pv) > 0 {
						if sl, isSl := pv[len(pv)-1].Type().Underlying().(*types.Slice); isSl && types.Identical(sl.Elem(), v.Type()) && ev.Frame.Lit == nil {
							ok, fnE = true, ev.Call.Fun
						}
					}
				}
				if ok {
					t, _ := g.builderAt(i).term(fnE, ev.Frame)
					a.requireGuard("R6a", name+"/fast-path-non-nil", g, i, false, fnot(eq(t, "nil")), "calling the single function")
					a.note("R13e", name+"/cancel-deferred", ev.Pos, !cancelDeferred, "subCtxCancel is deferred before the function is called", "the single function is called before the sub-context's cancel func is deferred", p)
				}
			}
			passThrough := false
			if ev.Kind == core.KReturn && len(ev.Results) == 1 {
				if call, ok := unparen(ev.Results[0]).(*ast.CallExpr); ok {
					_, passThrough = g.rets[call] // return helper(...): the helper's own return was judged
				}
			}
			if ev.Kind == core.KReturn && ev.Frame.Lit == nil && ev.Frame.CS == nil && !passThrough && len(ev.Results) == 1 && len(ev.Locks) == 0 {
				// inside the waiting loop: the returned value is the sampled exitErr
				inLoop := false
				for _, b := range p.Events[:i] {
					if b.Kind == core.KLoop {
						if _, ok := b.Node.(*ast.ForStmt); ok {
							inLoop = true
						}
					}
				}
				if inLoop && !strings.Contains(core.ExprString(ev.Results[0]), "Canceled") {
					v := identVar(ev.Results[0], ev.Frame)
					ok := false
					if v != nil {
						if dd, has := g.defs[i][v]; has && dd.expr != nil {
							if sv := identVar(dd.expr, dd.fr); sv != nil && sv == sharedErrVar && dd.sec >= 0 {
								ok = true
							}
						}
					}
					a.note("R12", name+"/return-sampled-error", ev.Pos, !ok, "the waiting loop returns the exitErr it sampled under the lock", "the waiting loop returns something other than the exitErr sampled in its critical section (for instance a literal nil): an error can be dropped", p)
					// … and it returns while functions are still running only for a real error: a sampled
					// context.Canceled is provisional (the workers overwrite it with a later real error)
					var cv *types.Var
					for lv, dd := range g.defs[i] {
						if dd.expr != nil && dd.sec >= 0 && counterVar != nil {
							if sv := identVar(dd.expr, dd.fr); sv != nil && sv == counterVar {
								cv = lv
							}
						}
					}
					if ok && cv != nil {
						want := for_(eq("0", c.Role(cv)), fand(fnot(eq(c.Role(v), "nil")), fnot(eq("context.Canceled", c.Role(v)))))
						a.requireGuard("R12", name+"/return-early-only-for-real-error", g, i, false, want, "returning from the waiting loop")
					}
				}
			}
		}
	})
	a.expect("R13a", name+"/spawn-counted", 1, "go callFunc(fn)")
	a.expect("R6a", name+"/fast-path-non-nil", 1, "fns[0](subCtx)")
	a.expect("R12", name+"/return-sampled-error", 1, "the return in the waiting loop")
}

func lt(a, b string) *formula { return atom("LT(" + a + "," + b + ")") }

func runGconc(c *Ctx) {
	a := newAgg(c)
	defer a.flush()
	const (
		running = "conc.ConcurrentQueue.running"
		maxc    = "conc.ConcurrentQueue.maxConcurrency"
		qsize   = "conc.ConcurrentQueue.jobQueueSize"
	)
	room := for_(fnot(lt("0", maxc)), lt(running, maxc))
	incDecOf := func(field string, tok token.Token) func(d *core.FuncDecl, n ast.Node) bool {
		return func(d *core.FuncDecl, n ast.Node) bool {
			s, ok := n.(*ast.IncDecStmt)
			if !ok || s.Tok != tok {
				return false
			}
			fv := fieldVar(s.X, &core.Frame{Pkg: d.Pkg})
			return fv != nil && core.FieldName(fv) == field
		}
	}
	// the producers: every function that spawns a worker (running++), whatever it is called
	producers := declsWhere(c, "conc", incDecOf(running, token.INC))
	if len(producers) < 2 {
		c.MissingAnchor("R12", sprintf("conc: the functions that spawn workers (running++): found %d, Enqueue and the refill after a limit change are expected", len(producers)))
	}
	for _, d := range producers {
		fn := d.Obj.Name()
		name := core.FuncName(d.Obj)
		c.Walk("R12", &core.Config{Follow: samePkgFollow(d.Pkg.PkgPath)}, core.Entry{Decl: d}, func(p *core.Path) {
			g := prepare(c, p)
			// per loop iteration: sinks
			iterStart := -1
			spawns, pushes, incs, qincs := 0, 0, 0, 0
			flush := func(pos token.Pos) {
				if iterStart >= 0 && fn == "Enqueue" {
					a.note("R13b", name+"/one-sink-per-job", pos, spawns+pushes != 1 || spawns != incs || pushes != qincs,
						"each job goes to exactly one of {worker, queue}, with the matching counter",
						sprintf("an iteration over the jobs sends the job to %d workers and %d queue pushes (running++ %d, jobQueueSize++ %d): a job is lost, run twice or miscounted", spawns, pushes, incs, qincs), p)
				}
				spawns, pushes, incs, qincs = 0, 0, 0, 0
			}
			for i, ev := range p.Events {
				if ev.Kind == core.KLoop {
					flush(ev.Pos)
					iterStart = i
				}
				if incDecField(ev, running, token.INC) {
					incs++
					a.requireGuard("R12", name+"/spawn-under-limit", g, i, true, room, "running++ (spawning a worker)")
				}
				if incDecField(ev, qsize, token.INC) {
					qincs++
					a.requireGuard("R12", name+"/queue-when-full", g, i, true, fnot(room), "queueing a job")
				}
				if ev.Kind == core.KGo {
					spawns++
				}
				if (ev.Kind == core.KCall || ev.Kind == core.KEnter) && ev.Callee != nil && ev.Callee.Name() == "Push" {
					pushes++
				}
				if (ev.Kind == core.KCall || ev.Kind == core.KEnter) && ev.Callee != nil && ev.Callee.Name() == "PushFront" {
					a.note("R13b", name+"/fifo-wiring", ev.Pos, true, "", "a producer uses PushFront: jobs no longer run in enqueue order", p)
				}
			}
			if len(p.Events) > 0 {
				flush(p.Events[len(p.Events)-1].Pos)
			}
		})
		a.expect("R12", name+"/spawn-under-limit", 1, "running++ in "+fn)
	}
	// the worker: the function that retires itself (running--)
	// (the goroutine body: a declared function started with go; the decrement itself may sit in a
	// helper it calls inside its critical section)
	var retirers []*core.FuncDecl
	for _, d := range pkgDecls(c, "conc") {
		d := d
		ast.Inspect(d.Decl.Body, func(n ast.Node) bool {
			if gs, ok := n.(*ast.GoStmt); ok {
				if f, _ := typeutil.Callee(d.Pkg.TypesInfo, gs.Call).(*types.Func); f != nil {
					if wd := c.Prog.Decl(f.Origin()); wd != nil && RelPkg(wd.Pkg.PkgPath) == "conc" && bodyOrCalleesMatch(c, wd, incDecOf(running, token.DEC), 2) {
						dup := false
						for _, o := range retirers {
							dup = dup || o == wd
						}
						if !dup {
							retirers = append(retirers, wd)
						}
					}
				}
			}
			return true
		})
	}
	if len(retirers) == 0 {
		retirers = declsWhere(c, "conc", incDecOf(running, token.DEC))
	}
	if len(retirers) == 0 {
		c.MissingAnchor("R12", "conc: the worker function (running--)")
	}
	for _, d := range retirers {
		name := core.FuncName(d.Obj)
		c.Walk("R12", &core.Config{Follow: samePkgFollow(d.Pkg.PkgPath)}, core.Entry{Decl: d}, func(p *core.Path) {
			g := prepare(c, p)
			popIdx := -1
			var okVar *types.Var
			decs := 0
			for _, ev := range p.Events {
				if incDecField(ev, running, token.DEC) {
					decs++
				}
			}
			if p.End == core.EndReturn {
				a.note("R13b", name+"/exit-retires-once", d.Decl.Pos(), decs != 1, "every return of a worker follows exactly one running--",
					sprintf("a worker returns after %d decrements of running: the counter drifts (idle is never reached, or more workers than the limit run)", decs), p)
			}
			for i, ev := range p.Events {
				if (ev.Kind == core.KCall || ev.Kind == core.KEnter) && ev.Callee != nil && ev.Callee.Name() == "Pop" {
					popIdx = i
				}
				if ev.Kind == core.KAssign && ev.RhsIdx == 1 && popIdx >= 0 && ev.Rhs != nil && unparen(ev.Rhs) == ast.Expr(p.Events[popIdx].Call) {
					okVar = identVar(ev.Lhs, ev.Frame)
				}
				if incDecField(ev, running, token.DEC) {
					okName := "?popOk"
					if okVar != nil {
						okName = c.Role(okVar)
					}
					a.requireGuard("R12", name+"/retire-when-empty", g, i, true, fnot(fld(okName)), "running-- (retiring the worker)")
					a.note("R12", name+"/retire-when-empty/same-section", ev.Pos, !(popIdx >= 0 && g.sec[popIdx] == g.sec[i] && g.sec[i] >= 0),
						"the Pop whose failure retires the worker is made in the section that decrements running",
						"running-- is decided by a Pop made outside the critical section of the decrement: Enqueue can queue a job behind a worker that has already decided to exit, and the job is stranded", p)
				}
				if incDecField(ev, qsize, token.DEC) {
					okName := "?popOk"
					if okVar != nil {
						okName = c.Role(okVar)
					}
					a.requireGuard("R12", name+"/dequeue-count", g, i, true, fld(okName), "jobQueueSize--")
				}
			}
		})
		a.expect("R12", name+"/retire-when-empty", 1, "running-- in the worker")
	}
}

func runGccontainer(c *Ctx) {
	a := newAgg(c)
	defer a.flush()
	const val = "ccontainer.CContainer.val"
	const lock = "ccontainer.CContainer.bcast"
	if d := c.declByName("R12", "ccontainer", "CContainer", "SwapValue"); d != nil {
		name := core.FuncName(d.Obj)
		pv := paramVars(d)
		c.Walk("R12", &core.Config{Follow: samePkgFollow(d.Pkg.PkgPath)}, core.Entry{Decl: d}, func(p *core.Path) {
			g := prepare(c, p)
			cbIdx := -1
			lastRhs := map[*types.Var]localDef{}
			for i, ev := range p.Events {
				if ev.Kind == core.KAssign && !ev.FieldInit {
					if v := identVar(ev.Lhs, ev.Frame); v != nil && !v.IsField() {
						delete(lastRhs, v)
						if ev.Rhs != nil && ev.RhsIdx < 0 {
							lastRhs[v] = localDef{expr: ev.Rhs, fr: ev.Frame, sec: g.sec[i]}
						}
					}
				}
				if ev.Kind == core.KCall && ev.Callee == nil && ev.Builtin == "" && len(pv) > 0 && identVar(ev.Call.Fun, ev.Frame) == pv[0] {
					cbIdx = i
					a.note("R12", name+"/callback-in-section", ev.Pos, !holdsLock(ev, lock), "the client callback runs inside the container's critical section", "the client callback runs outside the container's critical section: another writer can interleave between the read and the store", p)
				}
				// what SwapValue returns is the cell's value read in the section, or what the callback made of it
				if ev.Kind == core.KReturn && ev.Frame.Parent == nil && len(ev.Results) == 1 {
					ok := false
					var chase func(e ast.Expr, fr *core.Frame, at, depth int) bool
					chase = func(e ast.Expr, fr *core.Frame, at, depth int) bool {
						if call, isCall := unparen(e).(*ast.CallExpr); isCall && len(pv) > 0 && identVar(call.Fun, fr) == pv[0] {
							return true
						}
						// the result of a same-package accessor walked in place (return c.GetValue())
						if call, isCall := unparen(e).(*ast.CallExpr); isCall && depth < 4 {
							if ri, inl := g.rets[call]; inl {
								if re, _ := retResult(p.Events[ri], 0); re != nil {
									return chase(re, p.Events[ri].Frame, at, depth+1)
								}
							}
						}
						if fv := fieldVar(e, fr); fv != nil && core.FieldName(fv) == val {
							return true
						}
						if v := identVar(e, fr); v != nil && !v.IsField() && depth < 4 {
							if dd, has := lastRhs[v]; has && dd.sec >= 0 {
								return chase(dd.expr, dd.fr, at, depth+1)
							}
						}
						return false
					}
					ok = chase(ev.Results[0], ev.Frame, i, 0)
					a.note("R12", name+"/returns-cell-or-callback-value", ev.Pos, !ok,
						"SwapValue returns the cell's value as read in its section, or what the callback made of it",
						"a path of SwapValue returns "+core.ExprString(ev.Results[0])+" that was neither read from the cell in the critical section nor produced by the callback (for instance the zero value when the callback is nil)", p)
				}
				if assignsField(ev, val, "") && cbIdx >= 0 {
					a.note("R12", name+"/read-modify-write-one-section", ev.Pos, !(g.sec[cbIdx] == g.sec[i] && g.sec[i] >= 0),
						"the store happens in the section in which the value was read and handed to the callback",
						"the value is stored in a different critical section than the one in which it was read and handed to the callback: a concurrent update is lost", p)
				}
			}
		})
		a.expect("R12", name+"/callback-in-section", 1, "the callback call in SwapValue")
		a.expect("R12", name+"/read-modify-write-one-section", 1, "the store in SwapValue")
	}
	// SwapValue is ONE critical section: what it returns was decided inside it (a value re-read after
	// the section belongs to whoever wrote last)
	if d := c.declByName("R12", "ccontainer", "CContainer", "SwapValue"); d != nil {
		name := core.FuncName(d.Obj)
		c.Walk("R12", &core.Config{Follow: samePkgFollow(d.Pkg.PkgPath)}, core.Entry{Decl: d}, func(p *core.Path) {
			if p.End != core.EndReturn {
				return
			}
			n := 0
			for _, ev := range p.Events {
				if ev.Kind == core.KAcquire && core.LockName(ev.Lock) == lock {
					n++
				}
			}
			a.note("R12", name+"/one-atomic-section", d.Decl.Pos(), n != 1,
				"SwapValue enters the container's critical section exactly once",
				sprintf("a path of SwapValue enters the container's critical section %d times: the value it returns (or stores) is not the one its own read-modify-write produced", n), p)
		})
	}
	// values of the container's element type are compared through the comparison helper only (the
	// custom equality decides what "empty", "same" and "changed" mean for every operation alike)
	for _, d := range pkgDecls(c, "ccontainer") {
		d := d
		if rn := core.RecvNamed(d.Obj); rn == nil || rn.Obj().Name() != "CContainer" {
			continue
		}
		callsEqual := false
		ast.Inspect(d.Decl.Body, func(n ast.Node) bool {
			if call, ok := n.(*ast.CallExpr); ok {
				if fv := fieldVar(call.Fun, &core.Frame{Pkg: d.Pkg}); fv != nil && core.FieldName(fv) == "ccontainer.CContainer.equal" {
					callsEqual = true
				}
			}
			return true
		})
		if callsEqual {
			continue // the comparison helper itself
		}
		direct := token.NoPos
		ast.Inspect(d.Decl.Body, func(n ast.Node) bool {
			be, ok := n.(*ast.BinaryExpr)
			if !ok || (be.Op != token.EQL && be.Op != token.NEQ) {
				return true
			}
			for _, side := range []ast.Expr{be.X, be.Y} {
				if t := d.Pkg.TypesInfo.TypeOf(side); t != nil {
					if _, isTP := t.(*types.TypeParam); isTP && !direct.IsValid() {
						direct = be.Pos()
					}
				}
			}
			return true
		})
		a.note("R12", core.FuncName(d.Obj)+"/values-compared-through-compare", d.Decl.Pos(), direct.IsValid(),
			"values of the element type are compared through the container's comparison helper only",
			"the method compares two values of the element type with == / != instead of the container's comparison helper: with a custom equality it disagrees with every other operation about what is empty or unchanged", nil)
	}
	// the comparison helper (the function that calls the custom equal field): two different values
	// are declared different only after the custom equality was consulted, or when there is none
	const equalF = "ccontainer.CContainer.equal"
	for _, d := range declsWhere(c, "ccontainer", func(d *core.FuncDecl, n ast.Node) bool {
		call, ok := n.(*ast.CallExpr)
		if !ok {
			return false
		}
		fv := fieldVar(call.Fun, &core.Frame{Pkg: d.Pkg})
		return fv != nil && core.FieldName(fv) == equalF
	}) {
		d := d
		name := core.FuncName(d.Obj)
		c.Walk("R12", &core.Config{}, core.Entry{Decl: d}, func(p *core.Path) {
			g := prepare(c, p)
			consulted := false
			for i, ev := range p.Events {
				if callsField(ev, equalF) {
					consulted = true
				}
				if ev.Kind != core.KReturn || ev.Frame.Parent != nil || len(ev.Results) != 1 {
					continue
				}
				res := unparen(ev.Results[0])
				tv, isConst := ev.Frame.Info().Types[res]
				if !isConst || tv.Value == nil {
					mentions := false
					ast.Inspect(res, func(n ast.Node) bool {
						if fv := fieldVarOfNode(n, ev.Frame); fv != nil && core.FieldName(fv) == equalF {
							mentions = true
						}
						return true
					})
					a.note("R12", name+"/different-only-after-custom-equality", ev.Pos, !(mentions || consulted),
						"a computed verdict involves the custom equality", "the comparison returns a computed verdict that does not involve the custom equal function", p)
					continue
				}
				if tv.Value.ExactString() == "false" {
					noneSet, _ := implies(g.litsBefore(i, false), eq("nil", equalF))
					a.note("R12", name+"/different-only-after-custom-equality", ev.Pos, !(consulted || noneSet),
						"values are declared different only after the custom equality was consulted, or when none is set",
						"the comparison declares two values different on a path that neither consulted the custom equal function nor showed it unset: SetValue/SwapValue store and broadcast a value equal to the current one, and WaitValue/WaitValueEmpty mis-judge values the custom equality maps onto the empty value", p)
				}
			}
		})
		if sig, ok := d.Obj.Type().(*types.Signature); ok && sig.Results().Len() == 1 && isBoolType(sig.Results().At(0).Type()) {
			a.expect("R12", name+"/different-only-after-custom-equality", 1, "return false in the comparison helper")
		}
	}
	for _, fn := range []string{"WaitValue", "WaitValueChange", "WaitValueEmpty"} {
		d := c.declByName("R12", "ccontainer", "CContainer", fn)
		if d == nil {
			continue
		}
		name := core.FuncName(d.Obj)
		c.Walk("R12", &core.Config{Follow: samePkgFollow(d.Pkg.PkgPath)}, core.Entry{Decl: d}, func(p *core.Path) {
			delegates := false
			for _, ev := range p.Events {
				if (ev.Kind == core.KCall || ev.Kind == core.KEnter) && ev.Callee != nil && ev.Callee.Name() == "WaitValueWithValidator" {
					delegates = true
				}
			}
			if p.End == core.EndReturn {
				a.note("R12", name+"/delegates", d.Decl.Pos(), !delegates, "the wrapper delegates to WaitValueWithValidator", "the wrapper no longer delegates to WaitValueWithValidator: its waiting discipline is not the one that was checked", p)
			}
		})
	}
}

func ev0Frame(p *core.Path) bool { return len(p.Events) > 0 }

func fieldVarOfNode(n ast.Node, fr *core.Frame) *types.Var {
	if e, ok := n.(ast.Expr); ok {
		return fieldVar(e, fr)
	}
	return nil
}
