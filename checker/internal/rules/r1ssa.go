package rules

import (
	"go/token"
	"go/types"
	"sort"

	"golang.org/x/tools/go/ssa"
	"golang.org/x/tools/go/ssa/ssautil"

	"utilverif/internal/core"
)

// R1ssa — cross-check of R1's access collection against the compiler IR (go/ssa): every FieldAddr /
// Field instruction on a field of a struct of the scoped packages, in a function of those packages,
// must correspond to an access event the AST walker produced for that field on that source line
// (construction contexts included: the walker emits those events and R1 filters them later). A
// field access that only the IR sees means the walker skipped a syntactic form, i.e. R1's verdict
// for that field rests on an incomplete access set.

func init() {
	register(&Rule{ID: "R1ssa", Text: r1ssaText, Run: runR1ssa})
}

const r1ssaText = `R1ssa: every field access instruction (FieldAddr/Field) that go/ssa builds for the functions of the scoped packages is matched, by field and source line, by an access event of the AST path walker over the same functions (all declared functions and all their literals walked as entries with all closures inlined). Unmatched instructions are reported: R1's lockset verdict for that field would rest on an incomplete access set.`

type accKey struct {
	file  string
	line  int
	field *types.Var
}

func runR1ssa(c *Ctx) {
	// the accesses R1 itself reaches through its calling contexts (same scope)
	sub := NewCtx(c.Prog)
	sub.Scope = c.Scope
	runR1(sub)
	c.PathsWalked += sub.PathsWalked
	for k := range sub.FuncsWalked {
		c.FuncsWalked[k] = true
	}
	r1sites, _ := sub.cache["r1sites"].(map[accKey]bool)
	seen := map[accKey]bool{}
	record := func(ev *core.Event) {
		if ev.Kind != core.KAccess || !ev.Var.IsField() {
			return
		}
		ps := c.Prog.Fset.Position(ev.Pos)
		seen[accKey{ps.Filename, ps.Line, ev.Var.Origin()}] = true
		// the selector's Sel may be on a later line of a multi-line expression
		if ev.Node != nil {
			pe := c.Prog.Fset.Position(ev.Node.End())
			for l := ps.Line; l <= pe.Line; l++ {
				seen[accKey{ps.Filename, l, ev.Var.Origin()}] = true
			}
		}
	}
	// walk every declared function and every literal as an entry, nothing inlined except literals
	for _, e := range entriesOfAll(c) {
		cfg := &core.Config{EmitAccess: true}
		c.Walk("R1ssa", cfg, e, func(p *core.Path) {
			for _, ev := range p.Events {
				record(ev)
			}
		})
	}
	// build SSA
	var pkgs = c.Prog.Pkgs
	prog, spkgs := ssautil.AllPackages(pkgs, ssa.BuilderMode(0))
	prog.Build()
	inScope := map[*types.Package]bool{}
	for i, sp := range spkgs {
		if sp != nil && c.InScope(RelPkg(pkgs[i].PkgPath)) {
			inScope[sp.Pkg] = true
		}
	}
	type miss struct {
		pos   token.Pos
		field *types.Var
		fn    string
	}
	var misses, unreached []miss
	total := 0
	perPkg := map[string]int{}
	// all functions of the scoped packages, including the (uninstantiated) methods of generic types
	// and all anonymous functions
	fnset := map[*ssa.Function]bool{}
	var addFn func(fn *ssa.Function)
	addFn = func(fn *ssa.Function) {
		if fn == nil || fnset[fn] {
			return
		}
		fnset[fn] = true
		for _, an := range fn.AnonFuncs {
			addFn(an)
		}
	}
	for fn := range ssautil.AllFunctions(prog) {
		addFn(fn)
	}
	for i, sp := range spkgs {
		if sp == nil || !c.InScope(RelPkg(pkgs[i].PkgPath)) {
			continue
		}
		for _, d := range c.Prog.Funcs {
			if d.Pkg == pkgs[i] {
				addFn(prog.FuncValue(d.Obj))
			}
		}
	}
	nBuilt := 0
	for fn := range fnset {
		if fn.Pkg == nil || !inScope[fn.Pkg.Pkg] || fn.Synthetic != "" {
			continue
		}
		if len(fn.Blocks) > 0 {
			nBuilt++
		}
		for _, b := range fn.Blocks {
			for _, ins := range b.Instrs {
				var st *types.Struct
				var idx int
				var pos token.Pos
				var base ssa.Value
				switch x := ins.(type) {
				case *ssa.FieldAddr:
					pt, ok := x.X.Type().Underlying().(*types.Pointer)
					if !ok {
						continue
					}
					st, _ = pt.Elem().Underlying().(*types.Struct)
					idx, pos, base = x.Field, x.Pos(), x.X
				case *ssa.Field:
					st, _ = x.X.Type().Underlying().(*types.Struct)
					idx, pos, base = x.Field, x.Pos(), x.X
				default:
					continue
				}
				if st == nil || !pos.IsValid() {
					continue
				}
				f := st.Field(idx).Origin()
				if f.Pkg() == nil || !inScope[f.Pkg()] {
					continue
				}
				if core.LockKindOf(f.Type()) != core.NotLock {
					continue // lock fields are used through method calls; R1 exempts them
				}
				// initialisation of a fresh allocation (composite literal) is not an access event
				if _, isAlloc := base.(*ssa.Alloc); isAlloc {
					if fa, ok := ins.(*ssa.FieldAddr); ok && onlyStoredTo(fa) {
						continue
					}
				}
				total++
				perPkg[fn.Pkg.Pkg.Name()]++
				ps := c.Prog.Fset.Position(pos)
				if !seen[accKey{ps.Filename, ps.Line, f}] {
					misses = append(misses, miss{pos, f, fn.String()})
				} else if !r1sites[accKey{ps.Filename, ps.Line, f}] {
					unreached = append(unreached, miss{pos, f, fn.String()})
				}
			}
		}
	}
	sort.Slice(misses, func(i, j int) bool { return misses[i].pos < misses[j].pos })
	for _, m := range misses {
		c.Add(&Obligation{Rule: "R1ssa", Construct: core.FieldName(m.field) + "@" + m.fn, Pos: c.Prog.Pos(m.pos), Verdict: Undecided,
			Detail: "go/ssa has a field access instruction here that no access event of the AST walker matches (same field, same line): the walker skipped a syntactic form and R1's access set for this field is incomplete"})
	}
	sort.Slice(unreached, func(i, j int) bool { return unreached[i].pos < unreached[j].pos })
	for _, m := range unreached {
		c.Add(&Obligation{Rule: "R1ssa", Construct: core.FieldName(m.field) + "@" + m.fn + "/unreached", Pos: c.Prog.Pos(m.pos), Verdict: Undecided,
			Detail: "this field access is in code that none of R1's calling contexts reaches (no exported entry point, go statement, callback or returned closure leads to it): R1 has not judged the lockset of this access"})
	}
	c.Add(&Obligation{Rule: "R1ssa", Construct: "all/field-accesses-reached-by-R1", Pos: "-", Verdict: Discharged,
		Detail: sprintf("%d of %d SSA field access instructions are covered by an access R1 analysed in some calling context", total-len(misses)-len(unreached), total)})
	c.Add(&Obligation{Rule: "R1ssa", Construct: "all/field-accesses-matched", Pos: "-", Verdict: Discharged,
		Detail: sprintf("%d SSA functions with bodies; %d SSA field access instructions in the scoped packages (%v), %d unmatched; %d distinct (file,line,field) access sites from the AST walker", nBuilt, total, perPkg, len(misses), len(seen))})
}

// onlyStoredTo reports a FieldAddr whose only uses are stores into it (composite literal init).
func onlyStoredTo(fa *ssa.FieldAddr) bool {
	refs := fa.Referrers()
	if refs == nil || len(*refs) == 0 {
		return false
	}
	for _, r := range *refs {
		st, ok := r.(*ssa.Store)
		if !ok || st.Addr != ssa.Value(fa) {
			return false
		}
	}
	return true
}

// entriesOfAll: every declared function of the scope and every function literal in them.
func entriesOfAll(c *Ctx) []core.Entry {
	var out []core.Entry
	for _, d := range c.declsInScope() {
		out = append(out, core.Entry{Decl: d, Name: core.FuncName(d.Obj)})
		ei := core.EscapesOf(c.Prog, d)
		i := 0
		for l := range ei.Esc {
			i++
			out = append(out, core.Entry{Lit: l, Pkg: d.Pkg, Outer: d, Name: sprintf("%s.lit%d", core.FuncName(d.Obj), i)})
		}
	}
	return out
}
