package rules

import (
	"go/ast"
	"go/token"
	"go/types"
	"sort"
	"strings"

	"golang.org/x/tools/go/packages"
	"golang.org/x/tools/go/types/typeutil"

	"utilverif/internal/core"
)

// R1 — guarded-by (static lockset), plus the lock hygiene facts (R11) that fall out of the same
// walk. See DESIGN.md §3 R1.

func init() {
	register(&Rule{ID: "R1", Text: r1Text, Run: runR1})
}

const r1Text = `R1 guarded-by (static lockset): every field of a struct of the anchored packages and every local captured by a closure that runs in another execution context is, over all its non-construction accesses reached from any entry point (exported function/method, go target, callback handed to another function, returned closure, callback field with verified contract), either never written, of lock/atomic type, accessed with a common lock held on every access (RLock protects reads only), or published by the close of one channel after an atomic election (R1d). Locksets are propagated top-down along resolved static calls; critical sections are HoldLock-family callbacks and Lock/Unlock regions.`

type r1Context struct {
	decl  *core.FuncDecl
	lit   *ast.FuncLit
	pkg   *packages.Package
	outer *core.FuncDecl
	locks []core.Held
	binds map[types.Object]core.Value
	fresh map[types.Object]bool
	chain string
	key   string
	kind  string // entry kind, for evidence
	// reentrant: the context is a closure the library hands to client code (an argument of a call
	// through a func-typed field/parameter), or a function it calls synchronously: the client may
	// invoke it from inside one of its own callbacks, which the library runs with locks held
	reentrant bool
	handedPkg string // package path of the closure that was handed out (for reentrant contexts)
	// recvd: channel fields a receive from which precedes the call of this context on the caller's
	// path (the happens-before edge of a publication by close carries into the callee)
	recvd []*types.Var
}

type r1Access struct {
	v      *types.Var
	write  bool
	locks  []core.Held
	pos    token.Pos
	ctx    *r1Context
	inDecl bool
}

type r1FieldCall struct {
	locks []core.Held
	pos   token.Pos
	ctx   *r1Context
}

type r1 struct {
	c        *Ctx
	work     []*r1Context
	seen     map[string]bool
	accesses map[*types.Var][]*r1Access
	// callback fields
	fieldCalls map[*types.Var][]r1FieldCall
	fieldLits  map[*types.Var]map[*ast.FuncLit]*r1Context // literal -> context that stored it
	fieldFuncs map[*types.Var]map[*types.Func]*r1Context  // method value stored in a callback field
	// lock order edges
	edges map[[2]*types.Var]token.Pos
	// hygiene findings, keyed to dedupe
	hygiene map[string]*Obligation
	// per context: accessed vars (for the R1d second pass)
	ctxVars   map[*r1Context]map[*types.Var]bool
	nContexts int
	freshFn   map[*core.FuncDecl]bool
	sites     map[accKey]bool // every field access event seen in any calling context
	// captured-by-escaping-literal locals, global
	capturedBy map[*types.Var][]*ast.FuncLit
	// loops in which a variable declared outside them is captured by an escaping literal
	sharedInLoop map[*types.Var][]ast.Node
	escOf      map[*ast.FuncLit]core.LitEscape
	// option callback construction check
	applyCalls []string
	// R11e: locks held at some call of a client function value; blocking acquisitions made by
	// closures handed to client code
	clientLocks   map[*types.Var]token.Pos
	reentrantAcqs []r1ReAcq
}

type r1ReAcq struct {
	lock     *types.Var
	pos      token.Pos
	chain    string
	chainPkg string // package of the closure that was handed out
	wit      []string
}

var r1Exempt = map[string]string{
	"cqueue.atomicLIFONode.value": "lock-free node, private until published by CAS (decided by R10)",
	"cqueue.atomicLIFONode.next":  "lock-free node, private until published by CAS (decided by R10)",
}

// option callbacks run on a freshly constructed container (obligation R1a-opt).
var r1ConstructionCallbackFields = map[string]bool{
	"routine.option.cb": true,
	"keyed.option.cb":   true,
}

func lockKey(hs []core.Held) string { return strings.Join(lockNames(hs), ",") }

func (r *r1) enqueue(x *r1Context) {
	name := ""
	if x.decl != nil {
		name = core.FuncName(x.decl.Obj)
	} else {
		name = "lit@" + r.c.Prog.Pos(x.lit.Pos())
	}
	var b []string
	for o, v := range x.binds {
		s := o.Name() + "="
		switch v.Kind {
		case core.VFuncLit:
			s += "lit@" + r.c.Prog.Pos(v.Lit.Pos())
		default:
			s += v.String()
		}
		b = append(b, s)
	}
	for o := range x.fresh {
		b = append(b, o.Name()+"=fresh")
	}
	sort.Strings(b)
	var rc []string
	for _, v := range x.recvd {
		rc = append(rc, "<-"+core.FieldName(v))
	}
	sort.Strings(rc)
	b = append(b, rc...)
	if x.reentrant {
		b = append(b, "reentrant")
	}
	x.key = name + " {" + lockKey(x.locks) + "} [" + strings.Join(b, " ") + "]"
	if r.seen[x.key] {
		return
	}
	r.seen[x.key] = true
	r.work = append(r.work, x)
}

func runR1(c *Ctx) {
	r := &r1{c: c, seen: map[string]bool{}, accesses: map[*types.Var][]*r1Access{},
		fieldCalls: map[*types.Var][]r1FieldCall{}, fieldLits: map[*types.Var]map[*ast.FuncLit]*r1Context{}, fieldFuncs: map[*types.Var]map[*types.Func]*r1Context{},
		edges: map[[2]*types.Var]token.Pos{}, hygiene: map[string]*Obligation{},
		freshFn: map[*core.FuncDecl]bool{}, ctxVars: map[*r1Context]map[*types.Var]bool{}, capturedBy: map[*types.Var][]*ast.FuncLit{}, sharedInLoop: map[*types.Var][]ast.Node{}, escOf: map[*ast.FuncLit]core.LitEscape{}}
	// escape information for all functions in scope
	for _, d := range c.declsInScope() {
		ei := core.EscapesOf(c.Prog, d)
		for lit, e := range ei.Esc {
			r.escOf[lit] = e
			if e == core.EscNone {
				continue
			}
			for _, v := range ei.Captured[lit] {
				r.capturedBy[v] = append(r.capturedBy[v], lit)
			}
		}
		// a literal that escapes from inside a loop and captures a variable declared outside that loop:
		// in the next trip the variable is already shared, so every access inside the loop counts — also
		// the ones that precede the literal in the loop body (loops are walked for a bounded number of trips)
		var loops []ast.Node
		ast.Inspect(d.Decl, func(n ast.Node) bool {
			switch n.(type) {
			case *ast.ForStmt, *ast.RangeStmt:
				loops = append(loops, n)
			}
			return true
		})
		for lit, e := range ei.Esc {
			if e == core.EscNone {
				continue
			}
			for _, l := range loops {
				if !(lit.Pos() >= l.Pos() && lit.End() <= l.End()) {
					continue
				}
				for _, v := range ei.Captured[lit] {
					if v.Pos() >= l.Pos() && v.Pos() < l.End() {
						continue
					}
					r.sharedInLoop[v] = append(r.sharedInLoop[v], l)
				}
			}
		}
	}
	// entry points: exported functions and exported methods, with nothing held
	for _, d := range c.declsInScope() {
		if !d.Obj.Exported() {
			continue
		}
		r.enqueue(&r1Context{decl: d, chain: core.FuncName(d.Obj), kind: "exported"})
	}
	// fixpoint over the worklist and the callback-field contracts
	doneLits := map[string]bool{}
	for {
		for len(r.work) > 0 {
			x := r.work[0]
			r.work = r.work[1:]
			r.walkContext(x)
		}
		added := false
		var fields []*types.Var
		for f := range r.fieldLits {
			fields = append(fields, f)
		}
		sort.Slice(fields, func(i, j int) bool { return core.FieldName(fields[i]) < core.FieldName(fields[j]) })
		for _, f := range fields {
			contract := r.contractLocks(f)
			for lit, from := range r.fieldLits[f] {
				k := core.FieldName(f) + "@" + c.Prog.Pos(lit.Pos()) + "{" + lockKey(contract) + "}"
				if doneLits[k] {
					continue
				}
				doneLits[k] = true
				added = true
				x := &r1Context{lit: lit, pkg: c.Prog.EnclosingDecl(lit.Pos()).Pkg, outer: c.Prog.EnclosingDecl(lit.Pos()),
					locks: contract, chain: from.chain + " → stored in " + core.FieldName(f) + " → invoked under {" + lockKey(contract) + "}", kind: "callback-field"}
				if r1ConstructionCallbackFields[core.FieldName(f)] {
					x.fresh = map[types.Object]bool{}
					for _, fl := range lit.Type.Params.List {
						for _, n := range fl.Names {
							if o := x.pkg.TypesInfo.Defs[n]; o != nil {
								x.fresh[o] = true
							}
						}
					}
				}
				r.enqueue(x)
			}
		}
		var ffields []*types.Var
		for f := range r.fieldFuncs {
			ffields = append(ffields, f)
		}
		sort.Slice(ffields, func(i, j int) bool { return core.FieldName(ffields[i]) < core.FieldName(ffields[j]) })
		for _, f := range ffields {
			contract := r.contractLocks(f)
			for fn, from := range r.fieldFuncs[f] {
				k := core.FieldName(f) + "@" + core.FuncName(fn) + "{" + lockKey(contract) + "}"
				d := c.Prog.Decl(fn)
				if doneLits[k] || d == nil {
					continue
				}
				doneLits[k] = true
				added = true
				r.enqueue(&r1Context{decl: d, locks: contract, kind: "callback-field",
					chain: from.chain + " → method value " + core.FuncName(fn) + " stored in " + core.FieldName(f) + " → invoked under {" + lockKey(contract) + "}"})
			}
		}
		if !added && len(r.work) == 0 {
			break
		}
	}
	r.decide()
	c.cache["r1sites"] = r.sites
}

func (r *r1) site(ev *core.Event) {
	if r.sites == nil {
		r.sites = map[accKey]bool{}
	}
	ps := r.c.Prog.Fset.Position(ev.Pos)
	r.sites[accKey{ps.Filename, ps.Line, ev.Var.Origin()}] = true
	if ev.Node != nil {
		pe := r.c.Prog.Fset.Position(ev.Node.End())
		for l := ps.Line; l <= pe.Line; l++ {
			r.sites[accKey{ps.Filename, l, ev.Var.Origin()}] = true
		}
	}
}

// contractLocks is the intersection of the locksets at all invocation sites of a func-typed field.
func (r *r1) contractLocks(f *types.Var) []core.Held {
	calls := r.fieldCalls[f]
	if len(calls) == 0 {
		return nil
	}
	out := append([]core.Held(nil), calls[0].locks...)
	for _, fc := range calls[1:] {
		var keep []core.Held
		for _, h := range out {
			for _, g := range fc.locks {
				if g.Var == h.Var {
					keep = append(keep, h)
					break
				}
			}
		}
		out = keep
	}
	return out
}

func isFreshExpr(e ast.Expr, info *types.Info) bool {
	switch x := unparen(e).(type) {
	case *ast.CompositeLit:
		return true
	case *ast.UnaryExpr:
		if x.Op == token.AND {
			_, ok := unparen(x.X).(*ast.CompositeLit)
			return ok
		}
	case *ast.CallExpr:
		if id, ok := unparen(x.Fun).(*ast.Ident); ok {
			if b, ok := info.Uses[id].(*types.Builtin); ok && b.Name() == "new" {
				return true
			}
		}
	}
	return false
}

func (r *r1) walkContext(x *r1Context) {
	c := r.c
	r.nContexts++
	cfg := &core.Config{EmitAccess: true, Follow: func(fn *types.Func) bool {
		d := c.Prog.Decl(fn)
		return d != nil && c.InScope(RelPkg(d.Pkg.PkgPath)) && (transfersLock(d) || publishesByClose(d))
	}}
	e := core.Entry{Decl: x.decl, Lit: x.lit, Pkg: x.pkg, Outer: x.outer, Locks: x.locks, Binds: x.binds, Name: x.key}
	outer := x.outer
	if x.decl != nil {
		outer = x.decl
	}
	var ei *core.EscapeInfo
	if outer != nil {
		ei = core.EscapesOf(c.Prog, outer)
	}
	entryLocks := map[*types.Var]bool{}
	for _, h := range x.locks {
		entryLocks[h.Var] = true
	}
	c.Walk("R1", cfg, e, func(p *core.Path) {
		fresh := map[types.Object]bool{}
		for o := range x.fresh {
			fresh[o] = true
		}
		escaped := map[*types.Var]bool{}
		created := map[types.Object]bool{}
		recvd := append([]*types.Var(nil), x.recvd...)
		var entryFrame *core.Frame
		for i, ev := range p.Events {
			if i == 0 {
				entryFrame = ev.Frame
				for entryFrame != nil && entryFrame.Parent != nil {
					entryFrame = entryFrame.Parent
				}
			}
			info := ev.Frame.Info()
			isFreshRoot := func(e ast.Expr) (types.Object, bool) {
				id := rootIdent(e)
				if id == nil {
					return nil, false
				}
				o := info.Uses[id]
				if o == nil {
					o = info.Defs[id]
				}
				if o != nil && !fresh[o] && ev.Frame.Parent != nil {
					// a parameter or receiver of a function walked in place stands for the caller's variable
					if av := aliasOf(p, ev, id); av != nil && fresh[av] {
						return av, true
					}
				}
				return o, o != nil && fresh[o]
			}
			switch ev.Kind {
			case core.KAssign:
				if ev.FieldInit {
					if ev.Val.Kind == core.VFuncLit && ev.Var != nil {
						r.storeLit(ev.Var, ev.Val.Lit, x)
					}
					if ev.Val.Kind == core.VMethodVal && ev.Var != nil {
						r.storeFunc(ev.Var, ev.Val.Fn, x)
					}
					continue
				}
				if v := identVar(ev.Lhs, ev.Frame); v != nil && !v.IsField() {
					fresh[v] = ev.Rhs != nil && ev.RhsIdx < 0 && r.isFresh(ev.Rhs, info)
					created[v] = fresh[v]
				} else if ev.Var != nil && ev.Var.IsField() {
					if ev.Val.Kind == core.VFuncLit {
						r.storeLit(ev.Var, ev.Val.Lit, x)
					}
					if ev.Val.Kind == core.VMethodVal {
						r.storeFunc(ev.Var, ev.Val.Fn, x)
					}
					// a fresh object stored into a field stops being private
					if ev.Rhs != nil {
						if o, ok := isFreshRoot(ev.Rhs); ok {
							if base, isF := isFreshRoot(ev.Lhs); !isF || base == nil {
								fresh[o] = false
							}
						}
					}
				}
			case core.KFuncLitVal:
				if ev.Val.Kind == core.VFuncLit {
					lit := ev.Val.Lit
					if r.escOf[lit] == core.EscEarly {
						if d := c.Prog.EnclosingDecl(lit.Pos()); d != nil {
							for _, v := range core.EscapesOf(c.Prog, d).Captured[lit] {
								escaped[v] = true
								fresh[v] = false
							}
						}
					}
				} else if ev.Val.Kind == core.VMethodVal {
					// a method value created under a lockset: the method may be called under it
					if d := c.Prog.Decl(ev.Val.Fn); d != nil && c.InScope(RelPkg(d.Pkg.PkgPath)) {
						if methodValueBoundInCallee(c, p.Events[i+1:], ev.Node) {
							// handed to a function of the module as an argument: what happens to it (called
							// under the callee's locks, stored in a callback field) is decided there
							continue
						}
						locks := ev.Locks
						if methodValueRunsLater(p.Events[i+1:], ev.Node) {
							// handed to go / time.AfterFunc: it runs on another goroutine, with no lock of this path
							locks = nil
						}
						r.enqueue(&r1Context{decl: d, locks: locks, chain: x.chain + " → method value " + core.FuncName(d.Obj) + " @" + c.Prog.Pos(ev.Pos), kind: "method-value"})
					}
				}
			case core.KCall, core.KGo:
				r.handleCall(ev, x, fresh, created, info, ei, recvd)
			case core.KReturn:
				if ev.Frame == entryFrame && ei != nil {
					for _, res := range ev.Results {
						var lits []*ast.FuncLit
						if l, ok := unparen(res).(*ast.FuncLit); ok {
							lits = append(lits, l)
						} else if v := identVar(res, ev.Frame); v != nil {
							lits = ei.Bound[v]
						}
						for _, l := range lits {
							r.enqueue(&r1Context{lit: l, pkg: outer.Pkg, outer: outer, chain: x.chain + " → returned closure @" + c.Prog.Pos(l.Pos()), kind: "returned-closure"})
						}
					}
				}
				if ev.Frame == entryFrame {
					// the path leaves the entry with a lock it acquired itself still held?
					// (checked at the end of the path, after deferred calls)
				}
			case core.KAcquire:
				if x.reentrant && !ev.LockTry {
					r.reentrantAcqs = append(r.reentrantAcqs, r1ReAcq{lock: ev.Lock, pos: ev.Pos, chain: x.chain, chainPkg: x.handedPkg, wit: c.Prog.Witness(p)})
				}
				for _, h := range ev.Locks {
					if h.Var != ev.Lock {
						k := [2]*types.Var{h.Var, ev.Lock}
						if _, ok := r.edges[k]; !ok {
							r.edges[k] = ev.Pos
						}
					}
				}
				if ev.Reacquired() {
					r.hyg("R11c", x, ev, "re-acquires "+core.LockName(ev.Lock)+" while it is already held on this path (self-deadlock)", p)
				}
			case core.KRelease:
				if ev.NotHeld() && !entryLocks[ev.Lock] {
					r.hyg("R11a", x, ev, "releases "+core.LockName(ev.Lock)+" on a path on which it is not held", p)
				}
			case core.KRecv, core.KSend:
				if ev.Kind == core.KRecv && (!ev.NonBlocking || ev.InSelect) {
					if v := varOf(ev.Chan, ev.Frame); v != nil && v.IsField() {
						dup := false
						for _, o := range recvd {
							dup = dup || o == v.Origin()
						}
						if !dup {
							recvd = append(append([]*types.Var(nil), recvd...), v.Origin())
						}
					}
				}
				if !ev.NonBlocking && len(ev.Locks) > 0 {
					r.hyg("R11d", x, ev, "blocking channel operation on "+core.ExprString(ev.Chan)+" while holding "+core.LockSetString(ev.Locks), p)
				}
			case core.KAccess:
				v := ev.Var
				if v.IsField() {
					r.site(ev)
				}
				v = accessVar(ev) // a field of a local struct value is a (virtual) local
				if core.LockKindOf(v.Type()) != core.NotLock || core.IsAtomicType(v.Type()) {
					continue
				}
				isDecl := false
				if id, ok := ev.Node.(*ast.Ident); ok && id.Pos() == v.Pos() {
					isDecl = true
				}
				if v.IsField() {
					if !c.InScope(RelPkg(pkgPathOf(v))) {
						continue
					}
					if ev.Base != nil {
						if _, ok := isFreshRoot(ev.Base); ok {
							continue // construction context
						}
					}
					r.record(&r1Access{v: v, write: ev.Write, locks: ev.Locks, pos: ev.Pos, ctx: x})
					continue
				}
				// locals
				if isDecl {
					escaped[v] = false
					continue
				}
				if len(r.capturedBy[baseVar(v)]) == 0 {
					continue
				}
				counted := escaped[v] || escaped[baseVar(v)]
				if !counted {
					for _, l := range r.sharedInLoop[baseVar(v)] {
						if ev.Pos >= l.Pos() && ev.Pos < l.End() {
							counted = true
						}
					}
				}
				if !counted {
					for f := ev.Frame; f != nil; f = f.Parent {
						if f.Lit != nil && r.escOf[f.Lit] != core.EscNone && !(v.Pos() >= f.Lit.Pos() && v.Pos() < f.Lit.End()) {
							counted = true
							break
						}
					}
				}
				if counted {
					r.record(&r1Access{v: v, write: ev.Write, locks: ev.Locks, pos: ev.Pos, ctx: x})
				}
			}
		}
		// lock hygiene at the end of the path
		if p.End == core.EndReturn && len(p.Events) > 0 {
			last := p.Events[len(p.Events)-1]
			after := last.Locks
			if last.Kind == core.KRelease {
				after = nil
				for _, h := range last.Locks {
					if h.Var != last.Lock {
						after = append(after, h)
					}
				}
			}
			for _, h := range after {
				if !entryLocks[h.Var] {
					r.hyg("R11a", x, last, core.LockName(h.Var)+" acquired at "+c.Prog.Pos(h.Pos)+" is still held when the function returns", p)
				}
			}
		}
	})
}

func pkgPathOf(v *types.Var) string {
	if v.Pkg() == nil {
		return ""
	}
	return v.Pkg().Path()
}

func (r *r1) storeFunc(f *types.Var, fn *types.Func, x *r1Context) {
	f = f.Origin()
	if _, ok := f.Type().Underlying().(*types.Signature); !ok || fn == nil {
		return
	}
	if r.fieldFuncs[f] == nil {
		r.fieldFuncs[f] = map[*types.Func]*r1Context{}
	}
	if _, ok := r.fieldFuncs[f][fn]; !ok {
		r.fieldFuncs[f][fn] = x
	}
}

func (r *r1) storeLit(f *types.Var, lit *ast.FuncLit, x *r1Context) {
	f = f.Origin()
	if r.fieldLits[f] == nil {
		r.fieldLits[f] = map[*ast.FuncLit]*r1Context{}
	}
	if _, ok := r.fieldLits[f][lit]; !ok {
		r.fieldLits[f][lit] = x
	}
}

func (r *r1) record(a *r1Access) {
	r.accesses[a.v] = append(r.accesses[a.v], a)
	if r.ctxVars[a.ctx] == nil {
		r.ctxVars[a.ctx] = map[*types.Var]bool{}
	}
	r.ctxVars[a.ctx][a.v] = true
}

func (r *r1) hyg(rule string, x *r1Context, ev *core.Event, msg string, p *core.Path) {
	fn := ev.Frame
	for fn != nil && fn.Fn == nil && fn.Parent != nil {
		fn = fn.Parent
	}
	construct := ""
	if d := r.c.Prog.EnclosingDecl(ev.Pos); d != nil {
		construct = core.FuncName(d.Obj)
	} else {
		construct = x.key
	}
	construct += "/" + strings.SplitN(msg, " ", 2)[0] + ":" + core.LockName(ev.Lock)
	if ev.Lock == nil {
		construct = strings.TrimSuffix(construct, ":<nil>") + ":" + core.ExprString(ev.Chan)
	}
	key := rule + "|" + construct
	if _, ok := r.hygiene[key]; ok {
		return
	}
	r.hygiene[key] = &Obligation{Rule: rule, Construct: construct, Pos: r.c.Prog.Pos(ev.Pos), Verdict: Violated,
		Detail: msg + "; reached via " + x.chain, Witness: r.c.Prog.Witness(p)}
}

// handleCall processes an opaque call or a go statement seen on a path.
func (r *r1) handleCall(ev *core.Event, x *r1Context, fresh, created map[types.Object]bool, info *types.Info, ei *core.EscapeInfo, recvd []*types.Var) {
	c := r.c
	call := ev.Call
	if ev.Builtin != "" {
		return
	}
	// a call of a client function value (func-typed field, parameter or local that is not one of the
	// library's own literals) made with locks held
	if ev.Kind == core.KCall && ev.Callee == nil && ev.FunVal.Kind == core.VUnknown {
		if r.clientLocks == nil {
			r.clientLocks = map[*types.Var]token.Pos{}
		}
		for _, h := range ev.Locks {
			if _, ok := r.clientLocks[h.Var]; !ok {
				r.clientLocks[h.Var] = ev.Pos
			}
		}
	}
	// invocation of a func-typed field?
	if ev.Kind == core.KCall {
		if f := fieldVar(call.Fun, ev.Frame); f != nil {
			if _, ok := f.Type().Underlying().(*types.Signature); ok {
				r.fieldCalls[f] = append(r.fieldCalls[f], r1FieldCall{locks: ev.Locks, pos: ev.Pos, ctx: x})
			}
		}
	}
	locks := ev.Locks
	if ev.Kind == core.KGo {
		locks = nil
	}
	var calleeDecl *core.FuncDecl
	if ev.Callee != nil {
		calleeDecl = c.Prog.Decl(ev.Callee)
		if calleeDecl != nil {
			// interface method objects have no decl; methods reached through an interface are
			// entry points of their own (exported) or unreachable from here
			if n := core.RecvNamed(ev.Callee); n != nil {
				if _, isIface := n.Underlying().(*types.Interface); isIface {
					calleeDecl = nil
				}
			}
		}
	}
	if ev.Callee != nil && (ev.Callee.Name() == "ApplyToRoutineContainer" || ev.Callee.Name() == "ApplyToKeyed") && len(call.Args) == 1 {
		id := rootIdent(call.Args[0])
		ok := false
		if id != nil {
			o := info.Uses[id]
			ok = o != nil && created[o]
		}
		verdict := "fresh"
		if !ok {
			verdict = "NOT-FRESH"
		}
		r.applyCalls = append(r.applyCalls, c.Prog.Pos(ev.Pos)+":"+verdict)
	}
	// literal called by go
	if ev.Kind == core.KGo && ev.FunVal.Kind == core.VFuncLit {
		lit := ev.FunVal.Lit
		d := c.Prog.EnclosingDecl(lit.Pos())
		nx := &r1Context{lit: lit, pkg: d.Pkg, outer: d, chain: x.chain + " → go closure @" + c.Prog.Pos(lit.Pos()), kind: "go"}
		nx.binds = r.constBinds(lit.Type, nil, d.Pkg.TypesInfo, call, ev, nil)
		r.enqueue(nx)
	}
	var params []types.Object
	var recvObj types.Object
	if calleeDecl != nil {
		di := calleeDecl.Pkg.TypesInfo
		for _, f := range calleeDecl.Decl.Type.Params.List {
			for _, n := range f.Names {
				params = append(params, di.Defs[n])
			}
			if len(f.Names) == 0 {
				params = append(params, nil)
			}
		}
		if rc := calleeDecl.Decl.Recv; rc != nil && len(rc.List) == 1 && len(rc.List[0].Names) == 1 {
			recvObj = di.Defs[rc.List[0].Names[0]]
		}
	}
	nx := &r1Context{decl: calleeDecl, locks: locks, binds: map[types.Object]core.Value{}, fresh: map[types.Object]bool{}}
	if ev.Kind == core.KGo {
		nx.kind = "go"
	} else {
		nx.kind = "call"
		nx.recvd = recvd
		nx.reentrant, nx.handedPkg = x.reentrant, x.handedPkg
	}
	variadic := false
	if calleeDecl != nil {
		if n := len(calleeDecl.Decl.Type.Params.List); n > 0 {
			_, variadic = calleeDecl.Decl.Type.Params.List[n-1].Type.(*ast.Ellipsis)
		}
	}
	for i, arg := range call.Args {
		var pobj types.Object
		if i < len(params) && !(variadic && i >= len(params)-1) {
			pobj = params[i]
		}
		// function values flowing into the call
		var lits []*ast.FuncLit
		if i < len(ev.ArgVals) && ev.ArgVals[i].Kind == core.VFuncLit {
			lits = append(lits, ev.ArgVals[i].Lit)
		} else if v := identVar(arg, ev.Frame); v != nil && ei != nil {
			lits = ei.Bound[v]
		}
		if i < len(ev.ArgVals) && ev.ArgVals[i].Kind == core.VMethodVal && pobj != nil && calleeDecl != nil {
			nx.binds[pobj] = ev.ArgVals[i]
		}
		for _, lit := range lits {
			if pobj != nil && len(lits) == 1 {
				d := c.Prog.EnclosingDecl(lit.Pos())
				nx.binds[pobj] = core.Value{Kind: core.VFuncLit, Lit: lit, LitFr: &core.Frame{Pkg: d.Pkg}}
			} else {
				d := c.Prog.EnclosingDecl(lit.Pos())
				r.enqueue(&r1Context{lit: lit, pkg: d.Pkg, outer: d, chain: x.chain + " → closure @" + c.Prog.Pos(lit.Pos()) + " handed to " + core.ExprString(call.Fun), kind: "escaping-closure",
					reentrant: ev.Kind == core.KCall && ev.Callee == nil && ev.FunVal.Kind == core.VUnknown, handedPkg: d.Pkg.PkgPath})
			}
		}
		if tv, ok := info.Types[arg]; ok && tv.Value != nil && pobj != nil {
			if b, ok := constBool(tv); ok {
				nx.binds[pobj] = core.Value{Kind: core.VBool, Bool: b}
			}
		}
		// freshness
		if id := rootIdent(arg); id != nil {
			o := info.Uses[id]
			if o != nil && fresh[o] {
				plain := false
				switch a := unparen(arg).(type) {
				case *ast.Ident:
					plain = true
				case *ast.UnaryExpr:
					_, plain = unparen(a.X).(*ast.Ident)
				}
				if calleeDecl != nil && pobj != nil && plain && ev.Kind == core.KCall {
					nx.fresh[pobj] = true
					if sharesObject(calleeDecl, pobj) {
						fresh[o] = false
					}
				} else {
					fresh[o] = false
				}
			}
		}
	}
	// receiver freshness
	if sel, ok := unparen(call.Fun).(*ast.SelectorExpr); ok {
		if id := rootIdent(sel.X); id != nil {
			if o := info.Uses[id]; o != nil && fresh[o] {
				if _, plain := unparen(sel.X).(*ast.Ident); plain && calleeDecl != nil && recvObj != nil && ev.Kind == core.KCall {
					nx.fresh[recvObj] = true
					// … but a callee that starts goroutines on it (or captures it in a closure) publishes
					// the object: from here on the caller shares it
					if sharesObject(calleeDecl, recvObj) {
						fresh[o] = false
					}
				} else if ev.Kind == core.KGo {
					fresh[o] = false // go x.method(): the object is shared with the new goroutine
				} else if calleeDecl == nil && !isLockOrAtomicMethod(ev.Callee) {
					fresh[o] = false
				}
			}
		}
	}
	if calleeDecl != nil {
		nx.chain = x.chain + " → " + core.FuncName(calleeDecl.Obj) + " @" + c.Prog.Pos(ev.Pos)
		r.enqueue(nx)
		// the same call without the constant arguments, so that code a constant switches off today
		// (restartRoutineLocked(false, …)) is judged as well
		hasConst := false
		gen := &r1Context{decl: nx.decl, locks: nx.locks, fresh: nx.fresh, kind: nx.kind, recvd: nx.recvd, reentrant: nx.reentrant, handedPkg: nx.handedPkg, chain: nx.chain + " (any arguments)", binds: map[types.Object]core.Value{}}
		for o, v := range nx.binds {
			// a constant that decides whether the callee takes a lock itself ("if lock { mtx.Lock() }")
			// is part of the calling convention and stays bound: "lock=false and the caller does
			// not hold the lock" is not a call the program makes
			if v.Kind == core.VBool && !paramGuardsLockOp(calleeDecl, o) {
				hasConst = true
				continue
			}
			gen.binds[o] = v
		}
		if hasConst {
			r.enqueue(gen)
		}
	}
}

func isLockOrAtomicMethod(f *types.Func) bool {
	if f == nil || f.Pkg() == nil {
		return false
	}
	switch f.Pkg().Path() {
	case "sync", "sync/atomic":
		return true
	}
	return false
}

func constBool(tv types.TypeAndValue) (bool, bool) {
	if tv.Value == nil {
		return false, false
	}
	s := tv.Value.ExactString()
	if s == "true" {
		return true, true
	}
	if s == "false" {
		return false, true
	}
	return false, false
}

func (r *r1) constBinds(ft *ast.FuncType, _ *ast.FieldList, info *types.Info, call *ast.CallExpr, ev *core.Event, _ interface{}) map[types.Object]core.Value {
	out := map[types.Object]core.Value{}
	i := 0
	cinfo := ev.Frame.Info()
	for _, f := range ft.Params.List {
		for _, n := range f.Names {
			if i < len(call.Args) {
				if tv, ok := cinfo.Types[call.Args[i]]; ok {
					if b, ok := constBool(tv); ok {
						if o := info.Defs[n]; o != nil {
							out[o] = core.Value{Kind: core.VBool, Bool: b}
						}
					}
				}
			}
			i++
		}
	}
	return out
}

// isFresh: a composite literal, new(T), or a call of a module function that returns a freshly
// constructed object on every path (NewPromise, newRunningRoutine …).
func (r *r1) isFresh(e ast.Expr, info *types.Info) bool {
	if isFreshExpr(e, info) {
		return true
	}
	call, ok := unparen(e).(*ast.CallExpr)
	if !ok {
		return false
	}
	f, _ := typeutil.Callee(info, call).(*types.Func)
	return r.returnsFresh(r.c.Prog.Decl(f), 0)
}

func (r *r1) returnsFresh(d *core.FuncDecl, depth int) bool {
	if d == nil || depth > 3 {
		return false
	}
	if v, ok := r.freshFn[d]; ok {
		return v
	}
	info := d.Pkg.TypesInfo
	// locals that only ever hold fresh objects
	freshLocal := func(v *types.Var) bool {
		ok, any := true, false
		ast.Inspect(d.Decl.Body, func(n ast.Node) bool {
			as, isAs := n.(*ast.AssignStmt)
			if !isAs || len(as.Lhs) != len(as.Rhs) {
				return true
			}
			for i, l := range as.Lhs {
				if id, isId := unparen(l).(*ast.Ident); isId && (info.Defs[id] == types.Object(v) || info.Uses[id] == types.Object(v)) {
					any = true
					if !isFreshExpr(as.Rhs[i], info) {
						if c2, isCall := unparen(as.Rhs[i]).(*ast.CallExpr); isCall {
							f2, _ := typeutil.Callee(info, c2).(*types.Func)
							if r.returnsFresh(r.c.Prog.Decl(f2), depth+1) {
								continue
							}
						}
						ok = false
					}
				}
			}
			return true
		})
		return ok && any
	}
	res, anyRet := true, false
	var visit func(n ast.Node) bool
	visit = func(n ast.Node) bool {
		switch x := n.(type) {
		case *ast.FuncLit:
			return false
		case *ast.ReturnStmt:
			anyRet = true
			if len(x.Results) == 0 {
				res = false
				return true
			}
			e := x.Results[0]
			switch {
			case isFreshExpr(e, info):
			default:
				if id, ok := unparen(e).(*ast.Ident); ok {
					if v, ok := info.Uses[id].(*types.Var); ok && freshLocal(v) {
						break
					}
				}
				if c2, ok := unparen(e).(*ast.CallExpr); ok {
					f2, _ := typeutil.Callee(info, c2).(*types.Func)
					if r.returnsFresh(r.c.Prog.Decl(f2), depth+1) {
						break
					}
				}
				res = false
			}
		}
		return true
	}
	ast.Inspect(d.Decl.Body, visit)
	r.freshFn[d] = res && anyRet
	return res && anyRet
}

// methodValueRunsLater: the method value (node) is an argument of a go statement or of time.AfterFunc /
// context.AfterFunc further along the path.
func methodValueRunsLater(rest []*core.Event, node ast.Node) bool {
	for _, ev := range rest {
		if (ev.Kind != core.KCall && ev.Kind != core.KGo) || ev.Call == nil {
			continue
		}
		isArg := false
		for _, a := range ev.Call.Args {
			if unparen(a) == node {
				isArg = true
			}
		}
		if ev.Kind == core.KGo && unparen(ev.Call.Fun) == node {
			return true
		}
		if !isArg {
			continue
		}
		if ev.Kind == core.KGo {
			return true
		}
		if ev.Callee != nil && ev.Callee.Pkg() != nil && ev.Callee.Name() == "AfterFunc" &&
			(ev.Callee.Pkg().Path() == "time" || ev.Callee.Pkg().Path() == "context") {
			return true
		}
		return false
	}
	return false
}

// paramGuardsLockOp: some if-statement of the function whose condition mentions the parameter contains a
// lock operation in one of its branches.
func paramGuardsLockOp(d *core.FuncDecl, param types.Object) bool {
	if d == nil || d.Decl.Body == nil || param == nil {
		return false
	}
	info := d.Pkg.TypesInfo
	found := false
	ast.Inspect(d.Decl.Body, func(n ast.Node) bool {
		is, ok := n.(*ast.IfStmt)
		if !ok || found {
			return !found
		}
		mentions := false
		ast.Inspect(is.Cond, func(m ast.Node) bool {
			if id, ok := m.(*ast.Ident); ok && info.Uses[id] == param {
				mentions = true
			}
			return true
		})
		if !mentions {
			return true
		}
		check := func(b ast.Node) {
			ast.Inspect(b, func(m ast.Node) bool {
				call, ok := m.(*ast.CallExpr)
				if !ok {
					return true
				}
				if sel, ok := unparen(call.Fun).(*ast.SelectorExpr); ok {
					if tv, ok := info.Types[sel.X]; ok && core.LockKindOf(tv.Type) != core.NotLock {
						found = true
					}
				}
				return true
			})
		}
		check(is.Body)
		if is.Else != nil {
			check(is.Else)
		}
		return true
	})
	return found
}

// transfersLock: the declared function releases a lock it does not unconditionally acquire itself
// (hand-off: "unlocks mtx before returning; the caller locked it"), or acquires one it never releases
// (a lock wrapper). Such a function is walked in place by R1, because the caller's lockset after the call
// differs from the one before it.
func transfersLock(d *core.FuncDecl) bool {
	if d == nil || d.Decl.Body == nil {
		return false
	}
	info := d.Pkg.TypesInfo
	type cnt struct{ acqTop, acqAny, rel int }
	per := map[string]*cnt{}
	var visit func(n ast.Node, top bool)
	note := func(call *ast.CallExpr, top bool) {
		sel, ok := unparen(call.Fun).(*ast.SelectorExpr)
		if !ok {
			return
		}
		tv, ok := info.Types[sel.X]
		if !ok {
			return
		}
		k := core.LockKindOf(tv.Type)
		if k != core.SyncMutex && k != core.SyncRWMutex {
			return
		}
		key := types.ExprString(sel.X)
		c := per[key]
		if c == nil {
			c = &cnt{}
			per[key] = c
		}
		switch sel.Sel.Name {
		case "Lock", "RLock":
			c.acqAny++
			if top {
				c.acqTop++
			}
		case "TryLock", "TryRLock":
			c.acqAny++
		case "Unlock", "RUnlock":
			c.rel++
		}
	}
	visit = func(n ast.Node, top bool) {
		ast.Inspect(n, func(m ast.Node) bool {
			switch x := m.(type) {
			case *ast.FuncLit:
				return false
			case *ast.IfStmt, *ast.ForStmt, *ast.RangeStmt, *ast.SwitchStmt, *ast.TypeSwitchStmt, *ast.SelectStmt:
				if top && m != n {
					visit(m, false)
					return false
				}
			case *ast.CallExpr:
				note(x, top)
			}
			return true
		})
	}
	visit(d.Decl.Body, true)
	for _, c := range per {
		if c.rel > 0 && c.acqTop == 0 {
			return true
		}
		if c.acqAny > 0 && c.rel == 0 {
			return true
		}
	}
	return false
}

// sharesObject: the function mentions the object (its receiver or a parameter) in a go statement or
// inside a function literal — after a call of it the object may be reachable from another goroutine.
func sharesObject(d *core.FuncDecl, obj types.Object) bool {
	if d == nil || d.Decl.Body == nil || obj == nil {
		return false
	}
	info := d.Pkg.TypesInfo
	mentions := func(n ast.Node) bool {
		found := false
		ast.Inspect(n, func(m ast.Node) bool {
			if id, ok := m.(*ast.Ident); ok && info.Uses[id] == obj {
				found = true
			}
			return !found
		})
		return found
	}
	shared := false
	ast.Inspect(d.Decl.Body, func(n ast.Node) bool {
		switch x := n.(type) {
		case *ast.GoStmt:
			if mentions(x.Call) {
				shared = true
			}
		case *ast.FuncLit:
			if mentions(x.Body) {
				shared = true
			}
		}
		return !shared
	})
	return shared
}

// methodValueBoundInCallee: the method value (node) is an argument of a synchronous call of a declared
// module function.
func methodValueBoundInCallee(c *Ctx, rest []*core.Event, node ast.Node) bool {
	for _, ev := range rest {
		if (ev.Kind != core.KCall && ev.Kind != core.KGo && ev.Kind != core.KEnter) || ev.Call == nil {
			continue
		}
		for _, a := range ev.Call.Args {
			if unparen(a) == node {
				return ev.Kind != core.KGo && ev.Callee != nil && c.Prog.Decl(ev.Callee) != nil
			}
		}
	}
	return false
}

// publishesByClose: an unexported function that closes a channel-typed field (the publication step of
// the election idiom moved into a helper: store the result, close done). It is walked in place by R1
// so that the election made by its caller and the close are seen on one path.
func publishesByClose(d *core.FuncDecl) bool {
	if d == nil || d.Decl.Body == nil || d.Obj.Exported() {
		return false
	}
	found := false
	ast.Inspect(d.Decl.Body, func(n ast.Node) bool {
		if call, ok := n.(*ast.CallExpr); ok && len(call.Args) == 1 {
			if id, ok := unparen(call.Fun).(*ast.Ident); ok && id.Name == "close" {
				if fv := fieldVar(call.Args[0], &core.Frame{Pkg: d.Pkg}); fv != nil {
					if _, isCh := fv.Type().Underlying().(*types.Chan); isCh {
						found = true
					}
				}
			}
		}
		return !found
	})
	return found
}
