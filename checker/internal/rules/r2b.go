package rules

import (
	"go/ast"
	"go/token"
	"go/types"
	"sort"
	"strings"

	"utilverif/internal/core"
)

// R2b — an enabling write broadcasts. Waiter predicates are read off the paths that lead to a wait;
// every section path that writes predicate state without broadcasting is evaluated against them.

type fKind int

const (
	fAtom fKind = iota
	fNot
	fAnd
	fOr
	fConst
)

type formula struct {
	kind fKind
	name string // fAtom
	a, b *formula
	val  bool // fConst
	// fAtom: state variable key when the atom is decidable ("" for free atoms); zero: it is `key == 0`
	state string
	zero  bool
}

func fnot(f *formula) *formula { return &formula{kind: fNot, a: f} }

func (f *formula) atoms(into map[string]*formula) {
	switch f.kind {
	case fAtom:
		into[f.name] = f
	case fNot:
		f.a.atoms(into)
	case fAnd, fOr:
		f.a.atoms(into)
		f.b.atoms(into)
	}
}

func (f *formula) String() string {
	switch f.kind {
	case fAtom:
		return f.name
	case fNot:
		return "!" + f.a.String()
	case fAnd:
		return "(" + f.a.String() + " && " + f.b.String() + ")"
	case fOr:
		return "(" + f.a.String() + " || " + f.b.String() + ")"
	}
	if f.val {
		return "true"
	}
	return "false"
}

// tri-valued evaluation: 0 false, 1 true, 2 unknown
func (f *formula) eval(st map[string]int) int {
	switch f.kind {
	case fConst:
		if f.val {
			return 1
		}
		return 0
	case fAtom:
		if v, ok := st[f.name]; ok {
			return v
		}
		return 2
	case fNot:
		switch f.a.eval(st) {
		case 0:
			return 1
		case 1:
			return 0
		}
		return 2
	case fAnd:
		x, y := f.a.eval(st), f.b.eval(st)
		if x == 0 || y == 0 {
			return 0
		}
		if x == 1 && y == 1 {
			return 1
		}
		return 2
	case fOr:
		x, y := f.a.eval(st), f.b.eval(st)
		if x == 1 || y == 1 {
			return 1
		}
		if x == 0 && y == 0 {
			return 0
		}
		return 2
	}
	return 2
}

type r2Lit struct {
	f   *formula
	val bool
}

type r2Pred struct {
	lock   string
	waiter string
	site   string
	conjs  [][]r2Lit
	seen   map[string]bool
}

type localDef struct {
	expr   ast.Expr
	fr     *core.Frame
	sec    int  // section instance (index of its acquire event) the definition was made in, -1 outside
	shared bool // the defining expression reads lock-guarded or closure-shared state
	// alias: the variable is a field of a local struct value that was assigned as a whole
	// (snap = curr): it equals that (virtual) local of the source struct
	alias *types.Var
	// retAt > 0: the expression is a result of a function walked in place; it is to be read with the
	// definitions in force at that return event
	retAt int
}

// fbuilder turns condition expressions into formulas.
type fbuilder struct {
	c      *Ctx
	side   string // "w" waiter / "a" actor: prefixes of parameter and private-local atoms
	defs   map[*types.Var]localDef
	shared func(v *types.Var) bool
	lock   *types.Var // the lock whose sections are being looked at
	depth  int
}

// stateKey names a piece of lock-guarded state: a struct field or a local shared between closures.
func (b *fbuilder) stateKey(e ast.Expr, fr *core.Frame) (string, types.Type) {
	if fv := fieldVar(e, fr); fv != nil && localFieldVar(e, fr) == nil {
		return core.FieldName(fv), fv.Type()
	}
	// a captured local is lock-guarded state only when the lock is a local of the same function:
	// then lock and variable belong to the same invocation. With a lock field, captured locals and
	// parameters (write, pre …) are per-invocation values and differ between waiter and actor.
	if v := identVar(e, fr); v != nil && !v.IsField() && b.shared != nil && b.shared(v) && b.lock != nil && !b.lock.IsField() {
		if d1, d2 := b.c.Prog.EnclosingDecl(v.Pos()), b.c.Prog.EnclosingDecl(b.lock.Pos()); d1 != nil && d1 == d2 {
			// (named by the declaring function and the variable's role, not its line)
			return "local:" + v.Name() + "@" + b.c.Prog.Pos(v.Pos()), v.Type()
		}
	}
	return "", nil
}

func isZeroLit(e ast.Expr, fr *core.Frame) bool {
	tv, ok := fr.Info().Types[unparen(e)]
	return ok && tv.Value != nil && tv.Value.ExactString() == "0"
}

func isBasic(t types.Type, flag types.BasicInfo) bool {
	b, ok := t.Underlying().(*types.Basic)
	return ok && b.Info()&flag != 0
}

func (b *fbuilder) build(e ast.Expr, fr *core.Frame) *formula {
	e = unparen(e)
	opaque := func() *formula {
		return &formula{kind: fAtom, name: b.side + ":opaque@" + b.c.Prog.Pos(e.Pos()) + ":" + core.ExprString(e)}
	}
	if b.depth > 8 {
		return opaque()
	}
	switch x := e.(type) {
	case *ast.UnaryExpr:
		if x.Op == token.NOT {
			return fnot(b.build(x.X, fr))
		}
	case *ast.BinaryExpr:
		switch x.Op {
		case token.LAND:
			return &formula{kind: fAnd, a: b.build(x.X, fr), b: b.build(x.Y, fr)}
		case token.LOR:
			return &formula{kind: fOr, a: b.build(x.X, fr), b: b.build(x.Y, fr)}
		case token.EQL, token.NEQ:
			mk := func(f *formula) *formula {
				if x.Op == token.NEQ {
					return fnot(f)
				}
				return f
			}
			for _, pair := range [][2]ast.Expr{{x.X, x.Y}, {x.Y, x.X}} {
				v, other := pair[0], pair[1]
				// local with a pure definition: substitute
				if lv := identVar(v, fr); lv != nil {
					if d, ok := b.defs[lv]; ok && d.expr != nil && (isZeroLit(other, fr) || isNilExpr(other, fr)) {
						if key, t := b.stateKey(d.expr, d.fr); key != "" {
							if isZeroLit(other, fr) && isBasic(t, types.IsInteger) {
								return mk(&formula{kind: fAtom, name: key + "==0", state: key, zero: true})
							}
							if isNilExpr(other, fr) {
								return mk(&formula{kind: fAtom, name: key + "==nil", state: key})
							}
						}
					}
				}
				if key, t := b.stateKey(v, fr); key != "" {
					if isZeroLit(other, fr) && isBasic(t, types.IsInteger) {
						return mk(&formula{kind: fAtom, name: key + "==0", state: key, zero: true})
					}
					if isNilExpr(other, fr) {
						return mk(&formula{kind: fAtom, name: key + "==nil", state: key})
					}
				}
				if lv := identVar(v, fr); lv != nil && (isZeroLit(other, fr) || isNilExpr(other, fr)) {
					suffix := "==0"
					if isNilExpr(other, fr) {
						suffix = "==nil"
					}
					return mk(&formula{kind: fAtom, name: b.side + ":var:" + lv.Name() + "@" + b.c.Prog.Pos(lv.Pos()) + suffix})
				}
			}
			return opaque()
		}
	case *ast.Ident:
		if tv, ok := fr.Info().Types[x]; ok && tv.Value != nil {
			return &formula{kind: fConst, val: tv.Value.ExactString() == "true"}
		}
		v := identVar(x, fr)
		if v == nil || !isBasic(v.Type(), types.IsBoolean) {
			return opaque()
		}
		if d, ok := b.defs[v]; ok {
			if d.expr == nil {
				return &formula{kind: fAtom, name: b.side + ":var:" + v.Name() + "@" + b.c.Prog.Pos(v.Pos())}
			}
			b.depth++
			f := b.build(d.expr, d.fr)
			b.depth--
			return f
		}
		if key, _ := b.stateKey(x, fr); key != "" {
			return &formula{kind: fAtom, name: key, state: key}
		}
		return &formula{kind: fAtom, name: b.side + ":var:" + v.Name() + "@" + b.c.Prog.Pos(v.Pos())}
	case *ast.SelectorExpr:
		if v := localFieldVar(x, fr); v != nil && isBasic(v.Type(), types.IsBoolean) {
			// a bool field of a local struct value: as a bool local
			if d, ok := b.defs[v]; ok {
				if d.expr == nil {
					return &formula{kind: fAtom, name: b.side + ":var:" + v.Name() + "@" + b.c.Prog.Pos(v.Pos())}
				}
				b.depth++
				f := b.build(d.expr, d.fr)
				b.depth--
				return f
			}
			if key, _ := b.stateKey(x, fr); key != "" {
				return &formula{kind: fAtom, name: key, state: key}
			}
			return &formula{kind: fAtom, name: b.side + ":var:" + v.Name() + "@" + b.c.Prog.Pos(v.Pos())}
		}
		if key, t := b.stateKey(x, fr); key != "" && isBasic(t, types.IsBoolean) {
			return &formula{kind: fAtom, name: key, state: key}
		}
	}
	return opaque()
}


// defFromAssign: the definition a local gets from an assignment event — a pure expression, or, for a
// value returned by an inlined helper, what the helper returned (a pure expression, or the definition
// of the variable it returned).
func defFromAssign(ev *core.Event, defs map[*types.Var]localDef) (localDef, bool) {
	if ev.Tok != token.ASSIGN && ev.Tok != token.DEFINE {
		return localDef{}, false
	}
	if ev.RetEv != nil {
		re, rv := retResult(ev.RetEv, ev.RhsIdx)
		if rv != nil {
			if d, ok := defs[rv]; ok && d.expr != nil {
				return d, true
			}
		}
		if re != nil && rv == nil && isPureExpr(re) {
			return localDef{expr: re, fr: ev.RetEv.Frame}, true
		}
		return localDef{}, false
	}
	if ev.Rhs != nil && ev.RhsIdx < 0 && isPureExpr(ev.Rhs) {
		return localDef{expr: ev.Rhs, fr: ev.Frame}, true
	}
	return localDef{}, false
}

func isPureExpr(e ast.Expr) bool {
	pure := true
	ast.Inspect(e, func(n ast.Node) bool {
		switch x := n.(type) {
		case *ast.CallExpr, *ast.FuncLit:
			pure = false
		case *ast.UnaryExpr:
			if x.Op == token.ARROW {
				pure = false
			}
		}
		return pure
	})
	return pure
}

// ---------------------------------------------------------------------------------------------
// cells: value cells whose waiters re-evaluate an opaque predicate on every change. A write of a
// cell must be followed by broadcast() in the same section.

var r2Cells = map[string]string{
	"ccontainer.CContainer.val":        "WaitValueWithValidator hands the sampled value to a client validator",
	"promise.PromiseContainer.promise": "Await* follow the promise that is current",
}

// frozen exceptions of the truth-table rule: construct -> reason
var r2bFrozen = map[string]string{
	"conc.(*ConcurrentQueue).executeJob": "jobQueueSize-- without broadcast: the decrementing worker is itself counted in running until its own running--, so running != 0 stays true and WaitIdle cannot become satisfiable",
}

func (s *r2State) sharedLocal(v *types.Var) bool {
	v = baseVar(v)
	d := s.c.Prog.EnclosingDecl(v.Pos())
	if d == nil {
		return false
	}
	ei := core.EscapesOf(s.c.Prog, d)
	for lit, e := range ei.Esc {
		_ = e
		for _, cv := range ei.Captured[lit] {
			if cv == v {
				return true
			}
		}
	}
	return false
}

// collectPredicates walks the waiter entries again and records, per wait site, the conditions that
// hold on the way from the subscribing section to the wait.
func (s *r2State) collectPredicates(entries []core.Entry) map[string][]*r2Pred {
	c := s.c
	preds := map[string]*r2Pred{}
	for _, e := range entries {
		e := e
		cfg := &core.Config{Follow: sectionFollow(c, entryPkgPath(e))}
		c.Walk("R2b", cfg, e, func(p *core.Path) {
			open := map[*types.Var]int{}
			type winfo struct {
				lock *types.Var
				acq  int
			}
			wvars := map[*types.Var]winfo{}
			wt := newWTrack()
			getAcq := map[int]winfo{}
			defs := map[*types.Var]localDef{}
			record := func(i int, ev *core.Event, w *types.Var) {
				wi, ok := wvars[w]
				if !ok {
					return
				}
				site := enclosingName(c, ev) + "/wait(" + w.Name() + ")"
				key := core.LockName(wi.lock) + "|" + site
				pr := preds[key]
				if pr == nil {
					pr = &r2Pred{lock: core.LockName(wi.lock), waiter: enclosingName(c, ev), site: site, seen: map[string]bool{}}
					preds[key] = pr
				}
				fb := &fbuilder{c: c, side: "w", defs: defs, shared: s.sharedLocal, lock: wi.lock}
				var conj []r2Lit
				var sig []string
				for _, b := range p.Events[wi.acq:i] {
					if b.Kind != core.KBranch {
						continue
					}
					f := fb.build(b.Cond, b.Frame)
					conj = append(conj, r2Lit{f: f, val: b.CondVal})
					sig = append(sig, sprintf("%s=%v", f, b.CondVal))
				}
				k := strings.Join(sig, " & ")
				if !pr.seen[k] {
					pr.seen[k] = true
					pr.conjs = append(pr.conjs, conj)
				}
			}
			for i, ev := range p.Events {
				switch ev.Kind {
				case core.KAcquire:
					if core.LockKindOf(ev.Lock.Type()) == core.BcastLock {
						open[ev.Lock] = i
					}
				case core.KRelease:
					delete(open, ev.Lock)
				case core.KGetWaitCh:
					wt.onGet(i, ev)
					if a, ok := open[ev.Lock]; ok {
						getAcq[i] = winfo{lock: ev.Lock, acq: a}
					}
				case core.KAssign:
					if ev.FieldInit {
						break
					}
					v := identVar(ev.Lhs, ev.Frame)
					if v == nil || v.IsField() {
						break
					}
					if d, ok := defFromAssign(ev, defs); ok {
						defs[v] = d
					} else if ev.Rhs == nil && ev.Define {
						delete(defs, v) // zero value: the walker folds constants itself
					} else {
						defs[v] = localDef{}
					}
					if gi, ok := wt.onAssign(v, ev); ok {
						if wi, ok := getAcq[gi]; ok {
							wvars[v] = wi
						}
					} else {
						delete(wvars, v)
					}
				case core.KSelect:
					if sel, ok := ev.Node.(*ast.SelectStmt); ok && !ev.HasDefault {
						for w := range wvars {
							if selectHasArmOn(sel, w, ev.Frame) {
								record(i, ev, w)
							}
						}
					}
				case core.KRecv:
					if !ev.InSelect {
						if w := iv(ev.Chan, ev.Frame); w != nil {
							record(i, ev, w)
						}
					}
				case core.KCall:
					for _, a := range ev.Call.Args {
						if w := identVar(a, ev.Frame); w != nil {
							record(i, ev, w)
						}
					}
				}
			}
		})
	}
	out := map[string][]*r2Pred{}
	var keys []string
	for k := range preds {
		keys = append(keys, k)
	}
	sort.Strings(keys)
	for _, k := range keys {
		pr := preds[k]
		out[pr.lock] = append(out[pr.lock], pr)
	}
	return out
}

type r2Step struct {
	lit   *r2Lit
	state string // write to this state key
	op    string // "true","false","zero","inc","dec","unknown"
	pos   token.Pos
}

func runR2b(c *Ctx, s *r2State) {
	entries := entriesOf(c)
	preds := s.collectPredicates(entries)
	// evidence: list predicates
	var lks []string
	for l := range preds {
		lks = append(lks, l)
	}
	sort.Strings(lks)
	npred := 0
	for _, l := range lks {
		for _, pr := range preds[l] {
			dec := map[string]*formula{}
			for _, cj := range pr.conjs {
				for _, lit := range cj {
					lit.f.atoms(dec)
				}
			}
			var ds []string
			for n, a := range dec {
				if a.state != "" {
					ds = append(ds, n)
				}
			}
			sort.Strings(ds)
			if len(ds) > 0 {
				npred++
				c.Notes = append(c.Notes, sprintf("R2b predicate %s on %s: %d blocked-path conjunctions over %v", pr.site, l, len(pr.conjs), ds))
			}
		}
	}
	// actor sections
	for _, e := range entries {
		e := e
		pkg := entryPkgPath(e)
		has := sectionFollow(c, pkg)
		cfg := &core.Config{FollowCtx: func(f *types.Func, locks []core.Held) bool {
			if f.Pkg() == nil || f.Pkg().Path() != pkg {
				return false
			}
			for _, h := range locks {
				if core.LockKindOf(h.Var.Type()) == core.BcastLock {
					return true
				}
			}
			return has(f)
		}, Unroll: 1}
		c.Walk("R2b", cfg, e, func(p *core.Path) { s.actorPath(e, p, preds) })
	}
	c.Notes = append(c.Notes, sprintf("R2b: %d waiter predicates with decidable atoms", npred))
}

func (s *r2State) actorPath(e core.Entry, p *core.Path, preds map[string][]*r2Pred) {
	c := s.c
	defs := map[*types.Var]localDef{}
	type sec struct {
		lock *types.Var
		acq  int
	}
	var open []sec
	for i, ev := range p.Events {
		switch ev.Kind {
		case core.KAssign:
			if !ev.FieldInit {
				if v := identVar(ev.Lhs, ev.Frame); v != nil && !v.IsField() {
					if d, ok := defFromAssign(ev, defs); ok {
						defs[v] = d
					} else if ev.Rhs == nil && ev.Define {
						delete(defs, v)
					} else {
						defs[v] = localDef{}
					}
				}
			}
		case core.KAcquire:
			if core.LockKindOf(ev.Lock.Type()) == core.BcastLock {
				open = append(open, sec{ev.Lock, i})
			}
		case core.KRelease:
			for j := len(open) - 1; j >= 0; j-- {
				if open[j].lock == ev.Lock {
					s.section(e, p, open[j].acq, i, ev.Lock, defs, preds)
					open = append(open[:j], open[j+1:]...)
					break
				}
			}
		}
	}
	_ = c
}

// section evaluates one section instance [acq, rel] of a path.
func (s *r2State) section(e core.Entry, p *core.Path, acq, rel int, lock *types.Var, defs map[*types.Var]localDef, preds map[string][]*r2Pred) {
	c := s.c
	lname := core.LockName(lock)
	fb := &fbuilder{c: c, side: "a", defs: defs, shared: s.sharedLocal, lock: lock}
	var steps []r2Step
	written := map[string]bool{}
	broadcast := false
	subscribes := false
	cellWrites := map[string]token.Pos{}
	freshLocals := map[*types.Var]bool{} // locals assigned a freshly made (non-nil) object on this path
	for _, ev := range p.Events[:acq] {
		if ev.Kind == core.KAssign && !ev.FieldInit {
			if lv := identVar(ev.Lhs, ev.Frame); lv != nil && !lv.IsField() {
				freshLocals[lv] = ev.Rhs != nil && ev.RhsIdx < 0 && isFreshExpr(ev.Rhs, ev.Frame.Info())
			}
		}
	}
	var gp *gpath // prepared lazily: only sections that write pointer-like state need it
	for off, ev := range p.Events[acq : rel+1] {
		evIdx := acq + off
		if ev.Kind == core.KAssign && !ev.FieldInit {
			if lv := identVar(ev.Lhs, ev.Frame); lv != nil && !lv.IsField() {
				freshLocals[lv] = ev.Rhs != nil && ev.RhsIdx < 0 && isFreshExpr(ev.Rhs, ev.Frame.Info())
			}
		}
		switch ev.Kind {
		case core.KBroadcast:
			if ev.Lock == lock {
				broadcast = true
			}
		case core.KGetWaitCh:
			if ev.Lock == lock {
				subscribes = true
			}
		case core.KBranch:
			f := fb.build(ev.Cond, ev.Frame)
			steps = append(steps, r2Step{lit: &r2Lit{f: f, val: ev.CondVal}, pos: ev.Pos})
		case core.KAssign, core.KIncDec:
			if ev.FieldInit {
				continue
			}
			key, t := fb.stateKey(ev.Lhs, ev.Frame)
			if key == "" {
				continue
			}
			if _, isCell := r2Cells[key]; isCell {
				cellWrites[key] = ev.Pos
			}
			op := "unknown"
			if ev.Kind == core.KIncDec {
				op = "inc"
				if ev.Tok == token.DEC {
					op = "dec"
				}
			} else if ev.Rhs != nil && ev.RhsIdx < 0 && (ev.Tok == token.ASSIGN || ev.Tok == token.DEFINE) {
				if tv, ok := ev.Frame.Info().Types[unparen(ev.Rhs)]; ok && tv.Value != nil {
					switch tv.Value.ExactString() {
					case "true":
						op = "true"
					case "false":
						op = "false"
					case "0":
						op = "zero"
					}
				}
			}
			if isBasic(t, types.IsBoolean) || isBasic(t, types.IsInteger) {
				written[key] = true
				steps = append(steps, r2Step{state: key, op: op, pos: ev.Pos})
			} else if isNilable(t) && ev.Kind == core.KAssign {
				// pointer-like state: the atom is "key == nil"
				if gp == nil {
					gp = prepare(c, p)
				}
				if ev.Rhs != nil && ev.RhsIdx < 0 {
					gb := gp.builderAt(evIdx)
					lt, ok1 := gb.term(ev.Lhs, ev.Frame)
					rt, ok2 := gb.term(ev.Rhs, ev.Frame)
					lits := gp.litsBefore(evIdx, true)
					// (a) a write of the value the variable was just found to hold changes nothing
					if ok1 && ok2 {
						if same, _ := implies(lits, eq(lt, rt)); same && len(lits) > 0 {
							continue
						}
					}
					// (b) a context found dead (X.Err() != nil) and set to nil: every waiter normalises a
					// dead context to nil in its own section before testing it, so "dead" and "nil" are
					// the same state to them; what changed is the context's liveness, an external event
					// nobody can broadcast
					if ok1 && isNilExpr(ev.Rhs, ev.Frame) && isContextType(t) {
						if dead, _ := implies(lits, fnot(eq("nil", lt+".Err()"))); dead {
							continue
						}
					}
				}
				op := "unknown"
				if ev.Rhs != nil && ev.RhsIdx < 0 && (ev.Tok == token.ASSIGN || ev.Tok == token.DEFINE) {
					switch {
					case isNilExpr(ev.Rhs, ev.Frame):
						op = "nil"
					case isFreshExpr(ev.Rhs, ev.Frame.Info()) || ev.Val.Kind == core.VFuncLit || ev.Val.Kind == core.VNonNil:
						op = "nonnil"
					default:
						if lv := identVar(ev.Rhs, ev.Frame); lv != nil && freshLocals[lv] {
							op = "nonnil"
						}
					}
				}
				written[key] = true
				steps = append(steps, r2Step{state: key, op: op, pos: ev.Pos})
			}
		}
	}
	secName := enclosingName(c, p.Events[acq]) + "@" + lname
	// cell rule
	var cks []string
	for k := range cellWrites {
		cks = append(cks, k)
	}
	sort.Strings(cks)
	for _, k := range cks {
		s.note("R2b", secName+"/write("+k+")", cellWrites[k], !broadcast,
			"every path that writes the cell also calls broadcast() in the same section",
			"the value cell "+k+" is written on a path through this section that does not call broadcast(): a waiter that sampled the old value is not woken ("+r2Cells[k]+")", p)
	}
	if len(written) == 0 {
		return
	}
	for _, pr := range preds[lname] {
		// relevant?
		atoms := map[string]*formula{}
		for _, cj := range pr.conjs {
			for _, lit := range cj {
				lit.f.atoms(atoms)
			}
		}
		relevant := false
		for _, a := range atoms {
			if a.state != "" && written[a.state] {
				relevant = true
			}
		}
		if !relevant {
			continue
		}
		var ws []string
		for k := range written {
			ws = append(ws, shortState(k))
		}
		sort.Strings(ws)
		construct := secName + "/writes(" + strings.Join(ws, ",") + ") vs " + pr.site
		if broadcast {
			s.note("R2b", construct, p.Events[acq].Pos, false, "every path through the section that can make the waiter grantable broadcasts (or cannot falsify its blocking predicate)", "", p)
			continue
		}
		if subscribes && pr.waiter == enclosingName(c, p.Events[acq]) {
			// the section is the waiter's own subscribing section: it re-evaluates its predicate itself
		}
		for _, st := range steps {
			if st.lit != nil {
				st.lit.f.atoms(atoms)
			}
		}
		var names []string
		for n := range atoms {
			names = append(names, n)
		}
		sort.Strings(names)
		if len(names) > 16 {
			s.note("R2b", construct, p.Events[acq].Pos, true, "", sprintf("undecided: %d atoms", len(names)), p)
			continue
		}
		blocked := func(st map[string]int) int { // 1 blocked, 0 surely grantable, 2 unknown
			res := 0
			for _, cj := range pr.conjs {
				v := 1
				for _, lit := range cj {
					x := lit.f.eval(st)
					want := 0
					if lit.val {
						want = 1
					}
					if x == 2 {
						if v == 1 {
							v = 2
						}
					} else if x != want {
						v = 0
						break
					}
				}
				if v == 1 {
					return 1
				}
				if v == 2 {
					res = 2
				}
			}
			return res
		}
		violated := ""
		for mask := 0; mask < 1<<len(names) && violated == ""; mask++ {
			st := map[string]int{}
			for i, n := range names {
				st[n] = (mask >> i) & 1
			}
			if blocked(st) != 1 {
				continue
			}
			// simulate the section
			var sim func(k int, st map[string]int) bool // returns true if a grantable end state is reachable
			sim = func(k int, st map[string]int) bool {
				if k == len(steps) {
					b := blocked(st)
					if b != 2 {
						return b != 1
					}
					// atoms the section left unknown: grantable only if some completion is (a write of an
					// unknown value to X cannot unblock a waiter that is blocked for X == nil and for X != nil)
					var unk []string
					for n, v := range st {
						if v == 2 {
							unk = append(unk, n)
						}
					}
					sort.Strings(unk)
					if len(unk) > 10 {
						return true
					}
					for m := 0; m < 1<<len(unk); m++ {
						cs := copyState(st)
						for i, n := range unk {
							cs[n] = (m >> i) & 1
						}
						if blocked(cs) != 1 {
							return true
						}
					}
					return false
				}
				sp := steps[k]
				if sp.lit != nil {
					v := sp.lit.f.eval(st)
					want := 0
					if sp.lit.val {
						want = 1
					}
					if v == 2 {
						// refine unknown atoms both ways
						un := map[string]*formula{}
						sp.lit.f.atoms(un)
						for n := range un {
							if st[n] == 2 {
								for _, b := range []int{0, 1} {
									ns := copyState(st)
									ns[n] = b
									if sim(k, ns) {
										return true
									}
								}
								return false
							}
						}
						return false
					}
					if v != want {
						return false // infeasible with this pre-state
					}
					return sim(k+1, st)
				}
				ns := copyState(st)
				boolName, zeroName, nilName := sp.state, sp.state+"==0", sp.state+"==nil"
				switch sp.op {
				case "nil":
					if _, ok := ns[nilName]; ok {
						ns[nilName] = 1
					}
				case "nonnil":
					if _, ok := ns[nilName]; ok {
						ns[nilName] = 0
					}
				case "true":
					ns[boolName] = 1
				case "false":
					ns[boolName] = 0
				case "zero":
					ns[zeroName] = 1
				case "inc":
					ns[zeroName] = 0 // A2: counters are non-negative
				case "dec":
					if _, ok := ns[zeroName]; ok {
						ns[zeroName] = 2
					}
				default:
					if _, ok := ns[boolName]; ok {
						ns[boolName] = 2
					}
					if _, ok := ns[zeroName]; ok {
						ns[zeroName] = 2
					}
					if _, ok := ns[nilName]; ok {
						ns[nilName] = 2
					}
				}
				return sim(k+1, ns)
			}
			if sim(0, st) {
				var pre []string
				for _, n := range names {
					if atoms[n].state != "" {
						pre = append(pre, sprintf("%s=%v", n, st[n] == 1))
					}
				}
				violated = strings.Join(pre, ", ")
			}
		}
		if violated != "" {
			if why, ok := r2bFrozen[enclosingName(c, p.Events[acq])]; ok && strings.Contains(pr.site, "WaitIdle") {
				s.note("R2b", construct, p.Events[acq].Pos, false, "frozen exception: "+why, "", p)
				continue
			}
			s.note("R2b", construct, p.Events[acq].Pos, true, "",
				sprintf("this path through the section writes %v without broadcast() and can turn the blocking predicate of %s from blocked to grantable (e.g. from the state %s): the waiter is not woken", ws, pr.site, violated), p)
		} else {
			s.note("R2b", construct, p.Events[acq].Pos, false, "every path through the section that can make the waiter grantable broadcasts (or cannot falsify its blocking predicate)", "", p)
		}
	}
}

func copyState(st map[string]int) map[string]int {
	n := make(map[string]int, len(st))
	for k, v := range st {
		n[k] = v
	}
	return n
}

func shortState(k string) string {
	if strings.HasPrefix(k, "local:") {
		k = strings.TrimPrefix(k, "local:")
		if i := strings.Index(k, "@"); i >= 0 {
			return k[:i]
		}
		return k
	}
	return k[strings.LastIndex(k, ".")+1:]
}

// isNilable: pointer, interface, func, map, chan or slice typed.
func isNilable(t types.Type) bool {
	switch t.Underlying().(type) {
	case *types.Pointer, *types.Interface, *types.Signature, *types.Map, *types.Chan, *types.Slice:
		return true
	}
	return false
}
