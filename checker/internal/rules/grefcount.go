package rules

import (
	"go/ast"
	"go/token"
	"go/types"
	"strings"

	"golang.org/x/tools/go/types/typeutil"

	"utilverif/internal/core"
)

func init() {
	register(&Rule{ID: "Grefcount", Text: grefcountText, Run: runGrefcount})
}

const grefcountText = `R7/R6a/R12 refcount. resolve: the release function returned by the resolver is, on every path, stored into valueRel under r.nonce == nonce (together with resolved/value), or called when non-nil; the resolver is called only after the released closure exists. clearResolvedState: valueRel() is followed by valueRel = nil in the same section, and preceded by callRefCbsLocked(false) (and target.SetValue(empty)) whenever a value was resolved. shutdown increments the nonce before it cancels/clears; startResolveLocked begins with shutdown; removeRef calls shutdown exactly when the last reference goes and the value is not kept (!keepUnref || !resolved || valueErr != nil); SetContext calls startResolveLocked exactly when the context changed; released() restarts exactly when r.nonce == nonce. Ref.cb is nil-tested at every call site (R6a) and invoked with the current value when a reference is added to a resolved container. Access returns the callback's result only under an unchanged generation sampled in a section after the callback; its watcher cancels the callback context when the wait channel fires; Wait/Resolve* release the reference only on error. Ref.Release is idempotent (atomic prologue).`

func runGrefcount(c *Ctx) {
	a := newAgg(c)
	defer a.flush()
	const (
		nonce    = "refcount.RefCount.nonce"
		resolved = "refcount.RefCount.resolved"
		valueRel = "refcount.RefCount.valueRel"
		refcb    = "refcount.Ref.cb"
		mtx      = "refcount.RefCount.mtx"
	)
	// the unexported helpers are found by what they do (their names may change):
	//   resolve            calls the resolver field
	//   startResolve       spawns resolve with go
	//   shutdown           increments the generation counter
	//   callRefCbs         unexported functions that call Ref.cb
	//   removeRef          the RefCount method Ref.Release calls
	an := refcountAnchors(c)
	if an == nil {
		return
	}
	isFn := func(ev *core.Event, d *core.FuncDecl) bool {
		return d != nil && (ev.Kind == core.KCall || ev.Kind == core.KEnter) && ev.Callee != nil && ev.Callee.Origin() == d.Obj
	}
	pkgFollow := func(f *types.Func) bool {
		return f.Pkg() != nil && RelPkg(f.Pkg().Path()) == "refcount" && f.Origin() != an.resolve.Obj
	}
	// --- resolve
	if d := an.resolve; d != nil {
		name := core.FuncName(d.Obj)
		gen := "?nonce"
		if v := paramWhere(d, func(t types.Type) bool { return isBasic(t, types.IsInteger) }); v != nil {
			gen = c.Role(v)
		}
		type resPath struct {
			lits   []*r2Lit
			stored bool
			p      *core.Path
		}
		var resPaths []resPath
		c.Walk("R7", &core.Config{Follow: pkgFollow}, core.Entry{Decl: d}, func(p *core.Path) {
			g := prepare(c, p)
			var relVar *types.Var
			callIdx := -1
			stored, calledOrNil := false, false
			for i, ev := range p.Events {
				if callsField(ev, "refcount.RefCount.resolver") {
					callIdx = i
				}
				if ev.Kind == core.KAssign && ev.Rhs != nil && ev.RhsIdx == 1 && callIdx >= 0 && relVar == nil {
					if call, ok := unparen(ev.Rhs).(*ast.CallExpr); ok && call == p.Events[callIdx].Call {
						relVar = identVar(ev.Lhs, ev.Frame)
					}
				}
				if relVar == nil {
					continue
				}
				if assignsField(ev, valueRel, "") && ev.Rhs != nil && identVar(ev.Rhs, ev.Frame) == relVar {
					stored = true
					a.requireGuard("R7", name+"/store-release-func", g, i, false, eq(gen, nonce), "storing the resolver's release function")
					a.note("R7", name+"/store-release-func/locked", ev.Pos, !holdsLock(ev, mtx), "the release function is stored under mtx", "the release function is stored without mtx", p)
				}
				if (ev.Kind == core.KDefer || ev.Kind == core.KCall) && ev.Builtin == "" && ev.Call != nil && identVar(ev.Call.Fun, ev.Frame) == relVar {
					calledOrNil = true
				}
				if g.lits[i] != nil {
					if ok, _ := implies(g.litsBefore(i+1, false), eq("nil", c.Role(relVar))); ok {
						calledOrNil = true
					}
				}
				for _, f := range []string{resolved, "refcount.RefCount.value", "refcount.RefCount.valueErr"} {
					if assignsField(ev, f, "") && ev.Frame.Parent == nil {
						a.requireGuard("R7", name+"/store-result", g, i, false, eq(gen, nonce), "storing the resolver's result")
					}
				}
			}
			// a path that stores the result stores all of it: resolved = true (a failed resolution is a
			// result too: later references are told the error), the value, the error, the release function
			if callIdx >= 0 && p.End == core.EndReturn && stored {
				wroteTrue := false
				wrote := map[string]bool{}
				for _, ev := range p.Events[callIdx:] {
					if assignsField(ev, resolved, "true") {
						wroteTrue = true
					}
					for _, f := range []string{"refcount.RefCount.value", "refcount.RefCount.valueErr"} {
						if assignsField(ev, f, "") {
							wrote[f] = true
						}
					}
				}
				a.note("R7", name+"/store-result/marks-resolved", p.Events[callIdx].Pos, !wroteTrue,
					"a path that stores the resolver's result sets resolved = true, whatever the result",
					"a path stores the resolver's result without setting resolved to the constant true: a failed resolution is not kept, references added later are neither told the error nor start a new call", p)
				a.note("R7", name+"/store-result/all-fields", p.Events[callIdx].Pos, !(wrote["refcount.RefCount.value"] && wrote["refcount.RefCount.valueErr"]),
					"a path that stores the resolver's result writes both the value and the error field",
					"a path stores the resolver's result without writing both value and valueErr: the field left alone keeps what an earlier resolution put there, and references added later are told a stale value or error", p)
			}
			if callIdx >= 0 && p.End == core.EndReturn {
				resPaths = append(resPaths, resPath{g.litsBefore(len(p.Events), false), stored, p})
				a.note("R7", name+"/release-func-fate", p.Events[callIdx].Pos, !(stored || calledOrNil),
					"on every path the resolver's release function is stored, called, or shown nil",
					"a path returns after the resolver call without storing the returned release function, calling it or showing it nil: the value is never released", p)
			}
		})
		// the result is stored exactly when the generation is unchanged: a path that returns after the
		// resolver call without storing must have found the generation changed
		for _, rp := range resPaths {
			if rp.stored {
				continue
			}
			ok, cx := implies(rp.lits, fnot(eq(gen, nonce)))
			a.note("R7", name+"/store-result/complete", d.Decl.Pos(), !ok,
				"a resolver result is dropped only when the generation changed",
				c.Pretty(sprintf("resolve returns without storing the resolver's result on a path that does not exclude an unchanged generation (conditions: %s; counterexample %s): a result the container still waits for is thrown away and nothing is delivered", litsString(rp.lits), cx)), rp.p)
		}
		a.expect("R7", name+"/store-release-func", 1, "r.valueRel = valRel in resolve")
		a.expect("R7", name+"/release-func-fate", 1, "the resolver call in resolve")
		// released(): restart exactly when the generation is unchanged
		// the released closure(s): what resolve hands to the resolver as its callback argument (a
		// literal, or a local bound to literals) — helper closures it calls are walked in place
		var relLits []*ast.FuncLit
		{
			ei := core.EscapesOf(c.Prog, d)
			ast.Inspect(d.Decl.Body, func(n ast.Node) bool {
				call, ok := n.(*ast.CallExpr)
				if !ok {
					return true
				}
				if fv := fieldVar(call.Fun, &core.Frame{Pkg: d.Pkg}); fv == nil || core.FieldName(fv) != "refcount.RefCount.resolver" {
					return true
				}
				for _, arg := range call.Args {
					switch x := unparen(arg).(type) {
					case *ast.FuncLit:
						relLits = append(relLits, x)
					case *ast.Ident:
						relLits = append(relLits, ei.Bound[d.Pkg.TypesInfo.Uses[x]]...)
					}
				}
				return true
			})
		}
		if len(relLits) == 0 {
			c.MissingAnchor("R12", name+": the released callback handed to the resolver")
		}
		for li, l := range relLits {
			lname := sprintf("%s.released#%d", name, li+1)
			type rp struct {
				lits []*r2Lit
				did  bool
				p    *core.Path
			}
			var rps []rp
			// the closure itself, and the goroutines it starts for the contended case (go f(true) /
			// go func(){…}()): the same rows hold on those
			relEntries := []core.Entry{{Lit: l, Pkg: d.Pkg, Outer: d, Name: lname}}
			ei := core.EscapesOf(c.Prog, d)
			for re := 0; re < len(relEntries); re++ {
				relEntry := relEntries[re]
				c.Walk("R12", &core.Config{Follow: func(f *types.Func) bool { return pkgFollow(f) && f.Origin() != an.startResolve.Obj }}, relEntry, func(p *core.Path) {
					g := prepare(c, p)
					did := false
					locked := false
					for i, ev := range p.Events {
						if ev.Kind == core.KGo && len(relEntries) < 6 {
							var gl *ast.FuncLit
							if ev.FunVal.Kind == core.VFuncLit {
								gl = ev.FunVal.Lit
							} else if v := identVar(ev.Call.Fun, ev.Frame); v != nil && len(ei.Bound[v]) == 1 {
								gl = ei.Bound[v][0]
							}
							dup := gl == nil
							for _, x := range relEntries {
								dup = dup || x.Lit == gl
							}
							if !dup {
								binds := map[types.Object]core.Value{}
								k := 0
								for _, fl := range gl.Type.Params.List {
									for _, n := range fl.Names {
										if k < len(ev.ArgVals) && ev.ArgVals[k].Kind == core.VBool {
											binds[d.Pkg.TypesInfo.Defs[n]] = ev.ArgVals[k]
										}
										k++
									}
								}
								relEntries = append(relEntries, core.Entry{Lit: gl, Pkg: d.Pkg, Outer: d, Binds: binds, Name: lname + ".go"})
							}
						}
						if ev.Kind == core.KAcquire && core.LockName(ev.Lock) == mtx {
							locked = true
						}
						if isFn(ev, an.startResolve) {
							did = true
							a.requireGuard("R12", lname+"/restart", g, i, false, eq(gen, nonce), "re-resolving from released()")
							a.note("R12", lname+"/restart/locked", ev.Pos, !holdsLock(ev, mtx), "released() restarts under mtx", "released() restarts without holding mtx", p)
						}
					}
					if locked && p.End == core.EndReturn {
						rps = append(rps, rp{g.litsBefore(len(p.Events), false), did, p})
					}
				})
			}
			for _, r := range rps {
				if r.did {
					continue
				}
				ok, cx := implies(r.lits, fnot(eq(gen, nonce)))
				a.note("R12", lname+"/restart/complete", l.Pos(), !ok,
					"every locked path of released() that does not restart has established a changed generation",
					sprintf("released() returns without restarting on a path that does not exclude r.nonce == nonce (conditions: %s; counterexample %s): an invalidation is dropped and the stale value stays current", litsString(r.lits), cx), r.p)
			}
		}
	}
	// --- API walks with helpers inlined
	var entries []core.Entry
	for _, d := range c.Prog.Funcs {
		if RelPkg(d.Pkg.PkgPath) == "refcount" && d.Obj.Exported() && d.Decl.Recv != nil {
			entries = append(entries, core.Entry{Decl: d})
		}
	}
	if an.removeRef != nil {
		entries = append(entries, core.Entry{Decl: an.removeRef})
	}
	sortEntries(entries)
	type sp struct {
		lits []*r2Lit
		did  bool
		p    *core.Path
	}
	var setCtx, remRef []sp
	for _, e := range entries {
		e := e
		c.Walk("R7", &core.Config{Follow: pkgFollow, Unroll: 1}, e, func(p *core.Path) {
			g := prepare(c, p)
			didStart, didShutdown := false, false
			nonceInc := -1
			cbsIdx := -1
			for i, ev := range p.Events {
				if incDecField(ev, nonce, token.INC) {
					nonceInc = i
				}
				if isFn(ev, an.startResolve) {
					didStart = true
					// begins with the shutdown of the previous resolution: the first effect on every way
					// through it is the generation bump (in a shutdown helper or in place)
					if ev.Kind == core.KEnter {
						bumped := false
					scan:
						for _, b := range p.Events[i+1:] {
							switch {
							case incDecField(b, nonce, token.INC):
								bumped = true
								break scan
							case b.Kind == core.KAssign && !b.FieldInit && b.Var != nil && b.Var.IsField(), b.Kind == core.KGo, b.Kind == core.KCall && b.Callee == nil && b.Builtin == "":
								break scan
							case b.Kind == core.KExit && b.Inner == ev.Inner:
								break scan
							}
						}
						a.note("R7", core.FuncName(an.startResolve.Obj)+"/begins-with-shutdown", ev.Pos, !bumped,
							"every way through the (re)start of the resolution first bumps the generation (shuts the previous resolution down)", "a path through the (re)start of the resolution does not begin with the generation bump / shutdown: the previous value is not released and its resolver not cancelled before a new one starts (or an invalidation is dropped)", p)
					}
				}
				if incDecField(ev, nonce, token.INC) {
					didShutdown = true
				}
				for _, cbf := range an.callRefCbs {
					if isFn(ev, cbf) {
						cbsIdx = i
					}
				}
				// an invalidation (resolved = false) tells the references in the same section, whatever the
				// value was, and leaves no error behind
				if assignsField(ev, resolved, "false") {
					told, errGone := false, false
					var secLits []*r2Lit
					for j := 0; j < len(p.Events); j++ {
						if g.sec[j] != g.sec[i] || g.sec[i] < 0 {
							continue
						}
						b := p.Events[j]
						if j > i {
							for _, cbf := range an.callRefCbs {
								if isFn(b, cbf) {
									told = true
								}
							}
							// … or the notification loop written in place (reached, however many references there are)
							if callsField(b, refcb) {
								told = true
							}
							if b.Kind == core.KRange {
								if rs, ok := b.Node.(*ast.RangeStmt); ok {
									if fv := fieldVar(rs.X, b.Frame); fv != nil && core.FieldName(fv) == "refcount.RefCount.refs" {
										ast.Inspect(rs.Body, func(n ast.Node) bool {
											if call, ok := n.(*ast.CallExpr); ok {
												if cf := fieldVar(call.Fun, b.Frame); cf != nil && core.FieldName(cf) == refcb {
													told = true
												}
											}
											return true
										})
									}
								}
							}
						}
						if assignsField(b, "refcount.RefCount.valueErr", "nil") {
							errGone = true
						}
						if g.lits[j] != nil {
							secLits = append(secLits, g.lits[j])
						}
					}
					if !errGone {
						errGone, _ = implies(secLits, eq("nil", "refcount.RefCount.valueErr"))
					}
					a.note("R7", "refcount/invalidation/notifies-references", ev.Pos, !told,
						"a path that invalidates the resolved state tells the references (resolved=false) in the same section",
						"the resolved state is invalidated on a path that does not notify the references afterwards in the same section: a holder of the zero value or of an error keeps using it, its released callback never fires and its promise keeps the stale result", p)
					a.note("R7", "refcount/invalidation/leaves-no-error", ev.Pos, !errGone,
						"a path that invalidates the resolved state resets valueErr, or has found it nil",
						"the resolved state is invalidated on a path that neither resets valueErr nor has found it nil: the next successful resolution is reported together with the stale error to references added later", p)
				}
				if g.callsFieldAt(i, "refcount.RefCount.resolveCtxCancel") {
					a.note("R7", "refcount/generation-bump-before-cancel", ev.Pos, !(nonceInc >= 0 && g.sec[nonceInc] == g.sec[i]),
						"the nonce is incremented in the section that cancels the resolver",
						"the resolve context is cancelled on a path that did not increment the nonce in the same section: the cancelled resolver still believes it is current and stores its late result", p)
				}
				if g.callsFieldAt(i, valueRel) {
					// followed by valueRel = nil in the same section
					cleared := false
					for j := i + 1; j < len(p.Events) && g.sec[j] == g.sec[i]; j++ {
						if assignsField(p.Events[j], valueRel, "nil") {
							cleared = true
						}
					}
					a.note("R7", "refcount/value-release/release-then-forget", ev.Pos, !cleared,
						"valueRel() is followed by valueRel = nil before the section ends", "valueRel() is not followed by valueRel = nil in the same section: the release function can run twice", p)
					wasResolved, _ := implies(g.litsBefore(i, true), fnot(fld(resolved)))
					_ = wasResolved
					// whenever a value was resolved on this path the reference callbacks were told first
					sawResolved := false
					for j := g.sec[i]; j >= 0 && j < i; j++ {
						if l := g.lits[j]; l != nil && l.f.String() == "F("+resolved+")" && l.val {
							sawResolved = true
						}
					}
					// … and the target container no longer holds the value
					emptied, needEmpty := false, false
					for j := g.sec[i]; j >= 0 && j < i; j++ {
						b := p.Events[j]
						if l := g.lits[j]; l != nil && strings.Contains(l.f.String(), "refcount.RefCount.target") && strings.Contains(l.f.String(), "nil") {
							if ok, _ := implies([]*r2Lit{l}, fnot(eq("nil", "refcount.RefCount.target"))); ok {
								needEmpty = true
							}
						}
						if (b.Kind == core.KCall || b.Kind == core.KEnter) && b.Callee != nil && b.Callee.Name() == "SetValue" {
							if sel, ok := unparen(b.Call.Fun).(*ast.SelectorExpr); ok {
								if fv := fieldVar(sel.X, b.Frame); fv != nil && core.FieldName(fv) == "refcount.RefCount.target" {
									emptied = true
								}
							}
						}
					}
					a.note("R7", "refcount/value-release/empty-target-before-release", ev.Pos, needEmpty && !emptied,
						"when a target container holds the value it is emptied before the value is released",
						"the value's release function runs on a path on which the target container was found set but was not emptied first: the container exposes a released value", p)
					a.note("R7", "refcount/value-release/notify-before-release", ev.Pos, sawResolved && !(cbsIdx >= 0 && cbsIdx < i),
						"when a value was resolved, the reference callbacks are told it is gone before it is released",
						"the value's release function runs before the reference callbacks were told the value is gone", p)
				}
				if callsField(ev, refcb) {
					a.requireGuard("R6a", enclosingName(c, ev)+"/call(Ref.cb)", g, i, false, fnot(eq("nil", refcb)), "calling the reference callback")
				}
				// the error container mirrors valueErr: a path that drops an error (valueErr = nil, not known
				// nil before) also empties targetErr, or has shown there is none
				if assignsField(ev, "refcount.RefCount.valueErr", "nil") {
					knownNil, _ := implies(g.litsBefore(i, true), eq("nil", "refcount.RefCount.valueErr"))
					if !knownNil {
						mirrored := false
						var after []*r2Lit
						for j := i + 1; j < len(p.Events) && g.sec[j] == g.sec[i]; j++ {
							b := p.Events[j]
							if (b.Kind == core.KCall || b.Kind == core.KEnter) && b.Callee != nil && b.Callee.Name() == "SetValue" {
								if fv := fieldVar(callRecv(b.Call), b.Frame); fv != nil && core.FieldName(fv) == "refcount.RefCount.targetErr" {
									mirrored = true
								}
							}
							if g.lits[j] != nil {
								after = append(after, g.lits[j])
							}
						}
						if !mirrored {
							mirrored, _ = implies(after, eq("nil", "refcount.RefCount.targetErr"))
						}
						a.note("R7", "refcount/value-release/error-container-emptied", ev.Pos, !mirrored,
							"a path that drops a resolved error also empties the error container (or has shown there is none)",
							"valueErr is reset on a path that neither empties targetErr nor shows it nil: the error container keeps the stale error, and WaitRefCountContainer returns it instead of waiting for the fresh result", p)
					}
				}
			}
			name := entryName(e)
			if p.End != core.EndReturn {
				return
			}
			if nonceInc >= 0 {
				cancelled, released := false, false
				for j := nonceInc; j < len(p.Events); j++ {
					if g.callsFieldAt(j, "refcount.RefCount.resolveCtxCancel") {
						cancelled = true
					}
					if g.callsFieldAt(j, valueRel) {
						released = true
					}
				}
				var after []*r2Lit
				for j := nonceInc; j < len(p.Events); j++ {
					if g.lits[j] != nil {
						after = append(after, g.lits[j])
					}
				}
				if !cancelled {
					cancelled, _ = implies(after, eq("nil", "refcount.RefCount.resolveCtxCancel"))
				}
				if !released {
					released, _ = implies(after, eq("nil", valueRel))
				}
				pos := p.Events[nonceInc].Pos
				a.note("R4", "refcount/generation-bump/cancels-resolver", pos, !cancelled, "every path that bumps the generation cancels the resolve context or shows there is none",
					"a path bumps the generation and returns leaving a resolve context that may be live uncancelled: an in-flight resolver is not told to stop, and the next resolver waits for it forever", p)
				a.note("R7", "refcount/generation-bump/releases-value", pos, !released, "every path that bumps the generation calls the value's release function or shows there is none",
					"a path bumps the generation and keeps a release function uncalled although the value is being dropped", p)
			}
			if strings.HasSuffix(name, ".SetContext") {
				setCtx = append(setCtx, sp{g.litsBefore(len(p.Events), false), didStart, p})
			}
			if e.Decl != nil && e.Decl == an.removeRef {
				remRef = append(remRef, sp{g.litsBefore(len(p.Events), false), didShutdown, p})
			}
			if strings.HasSuffix(name, ".AddRef") {
				// a reference added to a resolved container is given the value (when it has a callback)
				lits := g.litsBefore(len(p.Events), false)
				isRes, _ := implies(lits, fand(fld(resolved), fnot(eq("nil", refcb))))
				called := false
				for _, ev := range p.Events {
					if callsField(ev, refcb) && holdsLock(ev, mtx) {
						called = true
					}
				}
				if isRes {
					a.note("R12", name+"/deliver-current-value", p.Events[0].Pos, !called,
						"a reference added while a value is resolved is handed that value under mtx",
						"AddRef returns on a path with a resolved value and a non-nil callback without invoking the callback: a late reference never learns the current value", p)
				}
			}
		})
	}
	iff := func(paths []sp, construct string, want *formula, what string, pos token.Pos) {
		for _, r := range paths {
			if r.did {
				ok, cx := implies(r.lits, want)
				a.note("R12", construct, pos, !ok, what+" happens exactly under "+want.String(),
					sprintf("%s happens on a path that does not imply %s (conditions: %s; counterexample %s)", what, want, litsString(r.lits), cx), r.p)
			} else {
				ok, cx := implies(r.lits, fnot(want))
				a.note("R12", construct, pos, !ok, what+" happens exactly under "+want.String(),
					sprintf("a path that does not perform %s does not exclude %s (conditions: %s; counterexample %s)", what, want, litsString(r.lits), cx), r.p)
			}
		}
	}
	setCtxParam := "?ctx"
	if d := c.Prog.Decl(c.Prog.LookupFunc("refcount", "RefCount", "SetContext")); d != nil {
		if v := paramWhere(d, isContextType); v != nil {
			setCtxParam = c.Role(v)
		}
	}
	iff(setCtx, "refcount.(*RefCount).SetContext/restart-iff-changed", fnot(eq(setCtxParam, "refcount.RefCount.ctx")), "restarting the resolution", token.NoPos)
	lastGone := fand(eq("0", "len(refcount.RefCount.refs)"),
		for_(for_(fnot(fld("refcount.RefCount.keepUnref")), fnot(fld(resolved))), fnot(eq("nil", "refcount.RefCount.valueErr"))))
	// "the set shrank" (len after < len before) is part of the condition; the atom is taken from
	// the code because it names a local
	shrank := ""
	for _, r := range remRef {
		for _, l := range r.lits {
			ats := map[string]*formula{}
			l.f.atoms(ats)
			for n := range ats {
				if strings.HasPrefix(n, "LT(len(refcount.RefCount.refs),") {
					shrank = n
				}
			}
		}
	}
	// … or "the reference was still registered" as the comma-ok result of a lookup in the set made
	// before the delete
	if shrank == "" && an.removeRef != nil {
		if v := assignedFromIndex(an.removeRef, "refcount.RefCount.refs"); v != nil {
			shrank = "F(" + c.Role(v) + ")"
		}
	}
	// … or a named boolean computed from the set before the delete (hadRefs := len(r.refs) != 0)
	if shrank == "" && an.removeRef != nil {
		rd := an.removeRef
		delPos := token.NoPos
		ast.Inspect(rd.Decl.Body, func(n ast.Node) bool {
			if call, ok := n.(*ast.CallExpr); ok && len(call.Args) == 2 {
				if id, ok := unparen(call.Fun).(*ast.Ident); ok && id.Name == "delete" {
					if fv := fieldVar(call.Args[0], &core.Frame{Pkg: rd.Pkg}); fv != nil && core.FieldName(fv) == "refcount.RefCount.refs" && !delPos.IsValid() {
						delPos = call.Pos()
					}
				}
			}
			return true
		})
		if delPos.IsValid() {
			ast.Inspect(rd.Decl.Body, func(n ast.Node) bool {
				as, ok := n.(*ast.AssignStmt)
				if !ok || len(as.Lhs) != 1 || len(as.Rhs) != 1 || as.Pos() > delPos {
					return true
				}
				v := identVar(as.Lhs[0], &core.Frame{Pkg: rd.Pkg})
				if v == nil || v.IsField() || !isBoolType(v.Type()) {
					return true
				}
				mentions := false
				ast.Inspect(as.Rhs[0], func(y ast.Node) bool {
					if e, ok := y.(ast.Expr); ok {
						if fv := fieldVar(e, &core.Frame{Pkg: rd.Pkg}); fv != nil && core.FieldName(fv) == "refcount.RefCount.refs" {
							mentions = true
						}
					}
					return true
				})
				if mentions {
					shrank = "F(" + c.Role(v) + ")"
				}
				return true
			})
		}
	}
	if shrank != "" {
		lastGone = fand(atom(shrank), lastGone)
	}
	a.topic = "last-ref"
	iff(remRef, "refcount/last-reference/shutdown-iff-last", lastGone, "shutting down", token.NoPos)
	a.expect("R12", "refcount/last-reference/shutdown-iff-last", 1, "paths of the function Ref.Release calls")
	a.topic = ""
	a.expect("R12", "refcount.(*RefCount).SetContext/restart-iff-changed", 1, "paths of SetContext")
	a.expect("R4", "refcount/generation-bump/cancels-resolver", 1, "paths that bump the generation")
	nR6a := 0
	for k := range a.m {
		if strings.HasPrefix(k, "R6a|") {
			nR6a++
		}
	}
	if nR6a == 0 {
		c.MissingAnchor("R6a", "refcount: no call of Ref.cb was found on any API path")
	}

	// --- Ref.Release prologue
	if d := c.declByName("R16", "refcount", "Ref", "Release"); d != nil {
		name := core.FuncName(d.Obj)
		c.Walk("R16", &core.Config{}, core.Entry{Decl: d}, func(p *core.Path) {
			swapped := false
			for _, ev := range p.Events {
				if ev.Kind == core.KCall && ev.Callee != nil && ev.Callee.Pkg() != nil && ev.Callee.Pkg().Path() == "sync/atomic" && (ev.Callee.Name() == "Swap" || ev.Callee.Name() == "CompareAndSwap") {
					swapped = true
				}
				if isFn(ev, an.removeRef) {
					a.note("R16", name+"/test-and-set-prologue", ev.Pos, !swapped, "Release wins an atomic test-and-set before it removes the reference",
						"Release removes the reference without an atomic test-and-set: a double release counts twice", p)
				}
			}
		})
		a.expect("R16", name+"/test-and-set-prologue", 1, "the reference removal in Ref.Release")
	}

	// --- consumers: Wait / Resolve / ResolveWithReleased release only on error
	for _, fn := range []string{"Wait", "Resolve", "ResolveWithReleased"} {
		d := c.declByName("R12", "refcount", "RefCount", fn)
		if d == nil {
			continue
		}
		name := core.FuncName(d.Obj)
		consumerFollow := func(f *types.Func) bool {
			// unexported helpers only: the exported methods these wrap (AddRef, WaitWithReleased …) are judged on their own
			return pkgFollow(f) && !f.Exported()
		}
		c.Walk("R12", &core.Config{Follow: consumerFollow}, core.Entry{Decl: d}, func(p *core.Path) {
			g := prepare(c, p)
			released := false
			obtained := false
			errRole := "?err"
			for i, ev := range p.Events {
				// the error of the await: the second result of the promise's Await call, wherever it is made
				if ev.Kind == core.KAssign && ev.RhsIdx == 1 && ev.Rhs != nil {
					if call, ok := unparen(ev.Rhs).(*ast.CallExpr); ok {
						if _, isAwait := callSel(call, "Await"); isAwait {
							if v := identVar(ev.Lhs, ev.Frame); v != nil && isErrorType(v.Type()) {
								errRole = c.Role(v)
							}
						}
					}
				}
				if (ev.Kind == core.KCall || ev.Kind == core.KEnter) && ev.Callee != nil && core.FuncName(ev.Callee) == "refcount.(*Ref).Release" {
					released = true
					a.requireGuard("R12", name+"/release-on-error-only", g, i, false, fnot(eq(errRole, "nil")), "releasing the reference")
				}
				// a return that hands no release function back to the caller has released the reference
				// itself (or never obtained one): otherwise nobody can ever drop it
				if (ev.Kind == core.KCall || ev.Kind == core.KEnter) && ev.Callee != nil && ev.Frame.Parent == nil {
					switch ev.Callee.Name() {
					case "AddRef", "WaitWithReleased", "AddRefPromise":
						if rn := core.RecvNamed(ev.Callee); rn != nil && rn.Obj().Name() == "RefCount" {
							obtained = true
						}
					}
				}
				if ev.Kind == core.KReturn && ev.Frame.Parent == nil && obtained {
					rs := returnExprs(p, i)
					rfr := ev.Frame
					// return helper(…): what the helper walked in place returned
					for depth := 0; depth < 3 && len(rs) == 1; depth++ {
						call, isCall := unparen(rs[0]).(*ast.CallExpr)
						if !isCall {
							break
						}
						ri, inl := g.rets[call]
						if !inl {
							break
						}
						rs, rfr = returnExprs(p, ri), p.Events[ri].Frame
					}
					handsBack := false
					for _, r := range rs {
						if t := rfr.Info().TypeOf(r); t != nil && !isNilExpr(r, rfr) {
							switch tt := t.Underlying().(type) {
							case *types.Signature:
								handsBack = true
							case *types.Pointer:
								if n, ok := tt.Elem().(*types.Named); ok && n.Obj().Name() == "Ref" {
									handsBack = true
								}
							}
						}
					}
					if !handsBack {
						// a release deferred until after the return counts
						relAfter := released
						for _, b := range p.Events[i+1:] {
							if (b.Kind == core.KCall || b.Kind == core.KEnter) && b.Callee != nil && core.FuncName(b.Callee) == "refcount.(*Ref).Release" {
								relAfter = true
							}
						}
						a.note("R12", name+"/reference-released-or-handed-back", ev.Pos, !relAfter,
							"a return that hands the caller neither the reference nor a release function has released the reference",
							"the function returns without handing back the reference (or a release function) on a path that did not release it: the reference can never be dropped and the value is held for ever", p)
					}
				}
				if ev.Kind == core.KReturn && ev.Frame.Parent == nil && len(ev.Results) == 3 && isNilExpr(ev.Results[2], ev.Frame) {
					a.note("R12", name+"/success-keeps-reference", ev.Pos, released, "a successful return leaves the reference held", "a successful return follows a Release of the reference: the value can be released while the caller uses it", p)
				}
			}
		})
	}
	// --- AddRefPromise: the reference callback mirrors every notification into the promise container —
	// a result when there is one, and an EMPTY container when the value is gone (a consumer that
	// awaits in between must block for the next value, not be handed the released one)
	if d := c.declByName("R12", "refcount", "RefCount", "AddRefPromise"); d != nil {
		name := core.FuncName(d.Obj)
		for li, l := range escapingLits(c, d) {
			if l.Type.Params.NumFields() != 3 {
				continue
			}
			lname := sprintf("%s.callback#%d", name, li+1)
			var resolvedParam *types.Var
			for _, f := range l.Type.Params.List {
				for _, n := range f.Names {
					if v, _ := d.Pkg.TypesInfo.Defs[n].(*types.Var); v != nil && isBoolType(v.Type()) && resolvedParam == nil {
						resolvedParam = v
					}
				}
			}
			if resolvedParam == nil {
				c.MissingAnchor("R12", lname+": the resolved flag of the reference callback")
				continue
			}
			c.Walk("R12", &core.Config{Follow: func(f *types.Func) bool { return pkgFollow(f) && !f.Exported() }}, core.Entry{Lit: l, Pkg: d.Pkg, Outer: d, Name: lname}, func(p *core.Path) {
				if p.End != core.EndReturn {
					return
				}
				g := prepare(c, p)
				emptied, resulted := false, false
				for _, ev := range p.Events {
					if ev.Kind != core.KCall || ev.Callee == nil {
						continue
					}
					if rn := core.RecvNamed(ev.Callee); rn == nil || rn.Obj().Name() != "PromiseContainer" {
						continue
					}
					switch ev.Callee.Name() {
					case "SetPromise":
						if len(ev.Call.Args) == 1 && isNilExpr(ev.Call.Args[0], ev.Frame) {
							emptied = true
						}
					case "SetResult":
						resulted = true
					}
				}
				lits := g.litsBefore(len(p.Events), false)
				gone, _ := implies(lits, fnot(fld(c.Role(resolvedParam))))
				have, _ := implies(lits, fld(c.Role(resolvedParam)))
				if gone {
					a.note("R12", lname+"/invalidation-empties-promise", l.Pos(), !emptied,
						"a notification that the value is gone empties the consumer's promise container",
						"the reference callback is told the value is gone on a path that does not empty the promise container (SetPromise(nil)): Wait/Resolve callers that await next are handed the value that was just released", p)
				}
				if have {
					a.note("R12", lname+"/value-sets-result", l.Pos(), !resulted,
						"a notification carrying a value or error sets it as the container's result",
						"the reference callback receives a value or error on a path that does not set it as the promise container's result", p)
				}
			})
			a.expect("R12", lname+"/invalidation-empties-promise", 1, "the !resolved branch of the AddRefPromise callback")
		}
	}
	releasedOnlyViaOnce(c, a)
	_ = shutdownCancels
	// --- Access
	if d := c.declByName("R12", "refcount", "RefCount", "Access"); d != nil {
		name := core.FuncName(d.Obj)
		pv := paramVars(d)
		var cbParam *types.Var
		for _, v := range pv {
			if v != nil {
				if _, ok := v.Type().Underlying().(*types.Signature); ok {
					cbParam = v
				}
			}
		}
		cancelVar := assignedFromCall(d, d.Decl, 1, func(call *ast.CallExpr) bool { _, ok := callSel(call, "WithCancel"); return ok })
		c.Walk("R12", &core.Config{}, core.Entry{Decl: d}, func(p *core.Path) {
			g := prepare(c, p)
			cbIdx := -1
			var cbErrVar *types.Var
			sameIdx := -1
			var genFlag *types.Var
			cancelDeferred := false
			for i, ev := range p.Events {
				if ev.Kind == core.KDefer && cancelVar != nil && identVar(ev.Call.Fun, ev.Frame) == cancelVar {
					cancelDeferred = true
				}
				if ev.Kind == core.KCall && ev.Callee == nil && ev.Builtin == "" && cbParam != nil && identVar(ev.Call.Fun, ev.Frame) == cbParam {
					cbIdx = i
					a.note("R13e", name+"/callback-context-cancelled-after", ev.Pos, !cancelDeferred, "cbCancel is deferred around the callback", "the callback runs without a deferred cbCancel: its context (and the watcher goroutine) leaks", p)
					cancelDeferred = false
				}
				if ev.Kind == core.KAssign && cbIdx >= 0 && ev.RetEv != nil && cbErrVar == nil && ev.Frame.Parent == nil {
					cbErrVar = identVar(ev.Lhs, ev.Frame)
				}
				// a generation comparison made under the lock after the callback returned:
				//   flag = <shared counter> == <local that was assigned from that counter earlier>
				if ev.Kind == core.KAssign && cbIdx >= 0 && i > cbIdx && len(ev.Locks) > 0 && ev.Rhs != nil {
					if be, ok := unparen(ev.Rhs).(*ast.BinaryExpr); ok && be.Op == token.EQL {
						for _, pair := range [][2]ast.Expr{{be.X, be.Y}, {be.Y, be.X}} {
							cnt, snap := identVar(pair[0], ev.Frame), identVar(pair[1], ev.Frame)
							if cnt == nil || snap == nil {
								continue
							}
							// the snapshot may have come through a closure parameter and through the result of a
							// sampling closure walked in place
							fromCounter := func() bool {
								v, at := snap, i
								if av := aliasOf(p, ev, pair[1]); av != nil {
									v = av
								}
								for depth := 0; depth < 4 && v != nil; depth++ {
									if d, ok := g.defs[at][v]; ok && (d.expr != nil && identVar(d.expr, d.fr) == cnt || d.alias != nil && d.alias == cnt) {
										return true
									}
									// assigned from the result of an inlined call: continue with the returned variable
									next := (*types.Var)(nil)
									for j := at - 1; j >= 0 && next == nil; j-- {
										b := p.Events[j]
										if b.Kind == core.KAssign && !b.FieldInit && b.RetEv != nil && identVar(b.Lhs, b.Frame) == v {
											if _, rv := retResult(b.RetEv, b.RhsIdx); rv != nil {
												for k := j; k >= 0; k-- {
													if p.Events[k] == b.RetEv {
														next, at = rv, k
														break
													}
												}
											}
											break
										}
									}
									v = next
								}
								return false
							}
							if fromCounter() && readsShared(c, pair[0], ev.Frame) {
								if fv := identVar(ev.Lhs, ev.Frame); fv != nil {
									genFlag, sameIdx = fv, i
								}
							}
						}
					}
				}
				if ev.Kind == core.KReturn && ev.Frame.Parent == nil && len(ev.Results) == 1 && cbErrVar != nil && identVar(ev.Results[0], ev.Frame) == cbErrVar {
					ok := false
					if genFlag != nil && sameIdx > cbIdx {
						ok, _ = implies(g.litsBefore(i, false), fld(c.Role(genFlag)))
					}
					a.note("R12", name+"/return-callback-result", ev.Pos, !ok,
						"the callback's result is returned only when a generation comparison made under the lock after the callback returned found the generation unchanged",
						"the callback's result is returned on a path that is not guarded by a comparison, made in a critical section after the callback returned, of the generation counter with the value sampled together with the value handed to the callback: a result computed from an invalidated value can be returned", p)
				}
			}
		})
		a.expect("R12", name+"/return-callback-result", 1, "return cbErr in Access")
		// the watcher goroutine
		for li, l := range escapingLits(c, d) {
			if !hasSelect(l) {
				continue
			}
			lname := sprintf("%s.watcher#%d", name, li+1)
			c.Walk("R12", &core.Config{}, core.Entry{Lit: l, Pkg: d.Pkg, Outer: d, Name: lname}, func(p *core.Path) {
				onWait, cancelled := false, false
				for _, ev := range p.Events {
					if ev.Kind == core.KRecv && ev.InSelect {
						// the arm on a plain channel variable (not ctx.Done()): the wait channel
						if v := identVar(ev.Chan, ev.Frame); v != nil && isChanType(v.Type()) {
							onWait = true
						}
					}
					if ev.Kind == core.KCall && cancelVar != nil && identVar(ev.Call.Fun, ev.Frame) == cancelVar {
						cancelled = true
					}
				}
				if onWait {
					a.note("R12", lname+"/cancel-on-invalidation", l.Pos(), !cancelled, "the wait-channel arm cancels the callback context", "the watcher's wait-channel arm does not cancel the callback context: an invalidated value's callback is not interrupted", p)
				}
			})
			a.expect("R12", lname+"/cancel-on-invalidation", 1, "the waitCh arm of the watcher goroutine")
		}
	}
}

func hasSelect(l *ast.FuncLit) bool {
	found := false
	ast.Inspect(l.Body, func(n ast.Node) bool {
		if _, ok := n.(*ast.SelectStmt); ok {
			found = true
		}
		return !found
	})
	return found
}

// releasedOnlyViaOnce (C10): in WaitWithReleased the client's released callback is called only from
// a goroutine started inside the function handed to a sync.Once's Do.
func releasedOnlyViaOnce(c *Ctx, a *agg) {
	d := c.declByName("R12", "refcount", "RefCount", "WaitWithReleased")
	if d == nil {
		return
	}
	name := core.FuncName(d.Obj)
	relParam := paramWhere(d, func(t types.Type) bool {
		s, ok := t.Underlying().(*types.Signature)
		return ok && s.Params().Len() == 0 && s.Results().Len() == 0
	})
	if relParam == nil {
		c.MissingAnchor("R12", name+": the released callback parameter")
		return
	}
	info := d.Pkg.TypesInfo
	// the callback may be kept in a field of a per-call state struct (released: released): calls
	// through that field, in whichever method of the package, are calls of the callback too
	relFields := map[*types.Var]bool{}
	ast.Inspect(d.Decl.Body, func(nd ast.Node) bool {
		switch x := nd.(type) {
		case *ast.KeyValueExpr:
			if id, ok := unparen(x.Value).(*ast.Ident); ok && info.Uses[id] == types.Object(relParam) {
				if kid, ok := x.Key.(*ast.Ident); ok {
					if fv, ok := info.Uses[kid].(*types.Var); ok && fv.IsField() {
						relFields[fv.Origin()] = true
					}
				}
			}
		case *ast.AssignStmt:
			for i, r := range x.Rhs {
				if id, ok := unparen(r).(*ast.Ident); ok && info.Uses[id] == types.Object(relParam) && i < len(x.Lhs) {
					if fv := fieldVar(x.Lhs[i], &core.Frame{Pkg: d.Pkg}); fv != nil {
						relFields[fv.Origin()] = true
					}
				}
			}
		}
		return true
	})
	n := 0
	for _, dd := range pkgDecls(c, "refcount") {
		dd := dd
		if dd != d && len(relFields) == 0 {
			continue
		}
		d := dd
		info := d.Pkg.TypesInfo
		var stack []ast.Node
		ast.Inspect(d.Decl.Body, func(nd ast.Node) bool {
			if nd == nil {
				stack = stack[:len(stack)-1]
				return true
			}
			stack = append(stack, nd)
			call, ok := nd.(*ast.CallExpr)
			if !ok {
				return true
			}
			isRel := false
			if id, ok := unparen(call.Fun).(*ast.Ident); ok && info.Uses[id] == types.Object(relParam) {
				isRel = true
			}
			if fv := fieldVar(call.Fun, &core.Frame{Pkg: d.Pkg}); fv != nil && relFields[fv] {
				isRel = true
			}
			if !isRel {
				return true
			}
			n++
			inGo, inOnce := false, false
			for i := len(stack) - 1; i >= 0; i-- {
				switch x := stack[i].(type) {
				case *ast.GoStmt:
					inGo = true
				case *ast.CallExpr:
					if sel, ok := unparen(x.Fun).(*ast.SelectorExpr); ok && sel.Sel.Name == "Do" && inGo {
						if t := info.TypeOf(sel.X); t != nil && strings.HasSuffix(t.String(), "sync.Once") {
							inOnce = true
						}
					}
				}
			}
			if inGo && !inOnce {
				// the function handed to Do may have been given a name first
				ei := core.EscapesOf(c.Prog, d)
				for i := len(stack) - 1; i >= 0 && !inOnce; i-- {
					lit, ok := stack[i].(*ast.FuncLit)
					if !ok {
						continue
					}
					for obj, lits := range ei.Bound {
						if len(lits) != 1 || lits[0] != lit {
							continue
						}
						uses, viaDo := 0, 0
						ast.Inspect(d.Decl.Body, func(x ast.Node) bool {
							switch y := x.(type) {
							case *ast.Ident:
								if info.Uses[y] == obj {
									uses++
								}
							case *ast.CallExpr:
								if sel, ok := unparen(y.Fun).(*ast.SelectorExpr); ok && sel.Sel.Name == "Do" && len(y.Args) == 1 {
									if t := info.TypeOf(sel.X); t != nil && strings.HasSuffix(t.String(), "sync.Once") {
										if id, ok := unparen(y.Args[0]).(*ast.Ident); ok && info.Uses[id] == obj {
											viaDo++
										}
									}
								}
							}
							return true
						})
						if uses > 0 && uses == viaDo {
							inOnce = true
						}
					}
				}
			}
			if !(inGo && inOnce) && onceGoChains(c, d, call) {
				inGo, inOnce = true, true
			}
			a.note("R12", name+"/released-once-from-goroutine", call.Pos(), !(inGo && inOnce),
				"the released callback is called only from a goroutine started under a sync.Once",
				"the released callback is called outside the sync.Once / not from a new goroutine: it can fire twice, or run with the container's mutex held", nil)
			return true
		})
	}
	a.expect("R12", name+"/released-once-from-goroutine", 1, "the call of released in WaitWithReleased")
}

// shutdownCancels (C08/C09): every path through shutdown() cancels the resolve context and releases
// the value, or shows the respective field nil.
func shutdownCancels(c *Ctx, a *agg, d *core.FuncDecl, follow func(*types.Func) bool) {
	if d == nil {
		return
	}
	name := core.FuncName(d.Obj)
	c.Walk("R4", &core.Config{Follow: follow}, core.Entry{Decl: d}, func(p *core.Path) {
		if p.End != core.EndReturn {
			return
		}
		g := prepare(c, p)
		cancelled, released := false, false
		for _, ev := range p.Events {
			if callsField(ev, "refcount.RefCount.resolveCtxCancel") {
				cancelled = true
			}
			if callsField(ev, "refcount.RefCount.valueRel") {
				released = true
			}
		}
		lits := g.litsBefore(len(p.Events), false)
		if !cancelled {
			cancelled, _ = implies(lits, eq("nil", "refcount.RefCount.resolveCtxCancel"))
		}
		if !released {
			released, _ = implies(lits, eq("nil", "refcount.RefCount.valueRel"))
		}
		a.note("R4", name+"/cancels-resolver", d.Decl.Pos(), !cancelled, "every path through shutdown cancels the resolve context or shows there is none",
			"a path through shutdown leaves a resolve context that may be live uncancelled: an in-flight resolver is not told to stop, and the next resolver waits for it forever", p)
		a.note("R7", name+"/releases-value", d.Decl.Pos(), !released, "every path through shutdown calls the value's release function or shows there is none",
			"a path through shutdown keeps a release function uncalled although the value is being dropped", p)
	})
	a.expect("R4", name+"/cancels-resolver", 1, "paths of shutdown")
}

type refcountAnchorSet struct {
	resolve, startResolve, shutdown, removeRef *core.FuncDecl
	callRefCbs                                 []*core.FuncDecl
}

// refcountAnchors finds the unexported helpers of refcount by structure.
func refcountAnchors(c *Ctx) *refcountAnchorSet {
	an := &refcountAnchorSet{}
	fr := func(d *core.FuncDecl) *core.Frame { return &core.Frame{Pkg: d.Pkg} }
	for _, d := range pkgDecls(c, "refcount") {
		d := d
		ast.Inspect(d.Decl.Body, func(n ast.Node) bool {
			switch x := n.(type) {
			case *ast.CallExpr:
				if fv := fieldVar(x.Fun, fr(d)); fv != nil {
					switch core.FieldName(fv) {
					case "refcount.RefCount.resolver":
						if an.resolve == nil {
							an.resolve = d
						}
					}
				}
			case *ast.IncDecStmt:
				if fv := fieldVar(x.X, fr(d)); fv != nil && core.FieldName(fv) == "refcount.RefCount.nonce" && x.Tok == token.INC && an.shutdown == nil {
					an.shutdown = d
				}
			}
			return true
		})
	}
	// the helpers that tell the references: unexported functions from which a call of Ref.cb is
	// reachable (directly, or through a small invoke helper)
	callsCb := func(d *core.FuncDecl, n ast.Node) bool {
		call, ok := n.(*ast.CallExpr)
		if !ok {
			return false
		}
		fv := fieldVar(call.Fun, fr(d))
		return fv != nil && core.FieldName(fv) == "refcount.Ref.cb"
	}
	// … inside a loop over the reference set (entering such a function is "the references are told",
	// also on the walked path that takes the loop zero times)
	for _, d := range pkgDecls(c, "refcount") {
		if d.Obj.Exported() {
			continue
		}
		d := d
		tells := false
		ast.Inspect(d.Decl.Body, func(n ast.Node) bool {
			rs, ok := n.(*ast.RangeStmt)
			if !ok || tells {
				return !tells
			}
			if fv := fieldVar(rs.X, fr(d)); fv == nil || core.FieldName(fv) != "refcount.RefCount.refs" {
				return true
			}
			ast.Inspect(rs.Body, func(m ast.Node) bool {
				if m == nil || tells {
					return !tells
				}
				if callsCb(d, m) {
					tells = true
				}
				if call, ok := m.(*ast.CallExpr); ok {
					if f, _ := typeutil.Callee(d.Pkg.TypesInfo, call).(*types.Func); f != nil && f.Pkg() == d.Obj.Pkg() {
						if hd := c.Prog.Decl(f.Origin()); hd != nil && hd != d && bodyOrCalleesMatch(c, hd, callsCb, 0) {
							tells = true
						}
					}
				}
				return !tells
			})
			return !tells
		})
		if tells {
			an.callRefCbs = append(an.callRefCbs, d)
		}
	}
	if an.resolve != nil {
		for _, d := range pkgDecls(c, "refcount") {
			d := d
			ast.Inspect(d.Decl.Body, func(n ast.Node) bool {
				if g, ok := n.(*ast.GoStmt); ok {
					if f, _ := typeutil.Callee(d.Pkg.TypesInfo, g.Call).(*types.Func); f != nil && f.Origin() == an.resolve.Obj && an.startResolve == nil {
						an.startResolve = d
					}
				}
				return true
			})
		}
	}
	if rel := c.Prog.LookupFunc("refcount", "Ref", "Release"); rel != nil {
		if d := c.Prog.Decl(rel); d != nil {
			ast.Inspect(d.Decl.Body, func(n ast.Node) bool {
				if call, ok := n.(*ast.CallExpr); ok && an.removeRef == nil {
					if f, _ := typeutil.Callee(d.Pkg.TypesInfo, call).(*types.Func); f != nil && f.Pkg() != nil && RelPkg(f.Pkg().Path()) == "refcount" {
						if rn := core.RecvNamed(f); rn != nil && rn.Obj().Name() == "RefCount" {
							an.removeRef = c.Prog.Decl(f.Origin())
						}
					}
				}
				return true
			})
		}
	}
	miss := func(what string) { c.MissingAnchor("R7", "refcount: "+what) }
	if an.resolve == nil {
		miss("the function that calls the resolver field")
		return nil
	}
	if an.startResolve == nil {
		miss("the function that spawns the resolver goroutine")
		return nil
	}
	if an.shutdown == nil {
		miss("the function that increments the generation counter")
	}
	if an.removeRef == nil {
		miss("the RefCount method Ref.Release calls")
	}
	if len(an.callRefCbs) == 0 {
		miss("the helper that calls the reference callbacks")
	}
	return an
}

// assignedFromIndex: the comma-ok variable of a lookup `_, ok := <field>[k]` in the function.
func assignedFromIndex(d *core.FuncDecl, field string) *types.Var {
	var out *types.Var
	fr := &core.Frame{Pkg: d.Pkg}
	ast.Inspect(d.Decl.Body, func(n ast.Node) bool {
		as, ok := n.(*ast.AssignStmt)
		if !ok || len(as.Lhs) != 2 || len(as.Rhs) != 1 || out != nil {
			return true
		}
		ix, ok := unparen(as.Rhs[0]).(*ast.IndexExpr)
		if !ok {
			return true
		}
		if fv := fieldVar(ix.X, fr); fv != nil && core.FieldName(fv) == field {
			out = identVar(as.Lhs[1], fr)
		}
		return true
	})
	return out
}

// onceGoChains: every way the code at site can come to run — followed upwards through the function
// literals that contain it and the places those literals are invoked from (called, started with go,
// deferred, handed to a sync.Once's Do, directly or through the local they are bound to) — passes a go
// statement and a sync.Once. A literal that is used in any other way (stored, passed to another
// function) ends the chain without credit.
func onceGoChains(c *Ctx, d *core.FuncDecl, site ast.Node) bool {
	info := d.Pkg.TypesInfo
	ei := core.EscapesOf(c.Prog, d)
	// parent links
	parent := map[ast.Node]ast.Node{}
	var stack []ast.Node
	ast.Inspect(d.Decl.Body, func(n ast.Node) bool {
		if n == nil {
			stack = stack[:len(stack)-1]
			return true
		}
		if len(stack) > 0 {
			parent[n] = stack[len(stack)-1]
		}
		stack = append(stack, n)
		return true
	})
	enclosingLit := func(n ast.Node) *ast.FuncLit {
		for x := parent[n]; x != nil; x = parent[x] {
			if l, ok := x.(*ast.FuncLit); ok {
				return l
			}
		}
		return nil
	}
	isOnceDo := func(call *ast.CallExpr) bool {
		sel, ok := unparen(call.Fun).(*ast.SelectorExpr)
		if !ok || sel.Sel.Name != "Do" || len(call.Args) != 1 {
			return false
		}
		t := info.TypeOf(sel.X)
		return t != nil && strings.HasSuffix(t.String(), "sync.Once")
	}
	// how an expression node e (a literal or an identifier bound to it) is used: "call", "go", "defer", "once", "" (other)
	useKind := func(e ast.Node) string {
		par := parent[e]
		for {
			if pe, ok := par.(*ast.ParenExpr); ok {
				e, par = pe, parent[pe]
				continue
			}
			break
		}
		call, ok := par.(*ast.CallExpr)
		if !ok {
			return ""
		}
		if unparen(call.Fun) == e.(ast.Expr) || call.Fun == e.(ast.Expr) {
			switch parent[call].(type) {
			case *ast.GoStmt:
				return "go"
			case *ast.DeferStmt:
				return "defer"
			}
			return "call"
		}
		if isOnceDo(call) && len(call.Args) == 1 && (call.Args[0] == e.(ast.Expr) || unparen(call.Args[0]) == e.(ast.Expr)) {
			return "once"
		}
		return ""
	}
	var up func(l *ast.FuncLit, sawGo, sawOnce bool, depth int) bool
	up = func(l *ast.FuncLit, sawGo, sawOnce bool, depth int) bool {
		if l == nil {
			return sawGo && sawOnce // reached the declared function's own body
		}
		if depth > 8 {
			return false
		}
		type use struct {
			kind string
			at   ast.Node
		}
		var uses []use
		bound := false
		for obj, lits := range ei.Bound {
			for _, bl := range lits {
				if bl != l {
					continue
				}
				bound = true
				ast.Inspect(d.Decl.Body, func(x ast.Node) bool {
					if id, ok := x.(*ast.Ident); ok && info.Uses[id] == obj {
						uses = append(uses, use{useKind(id), id})
					}
					return true
				})
			}
		}
		if !bound {
			uses = append(uses, use{useKind(l), l})
		}
		if len(uses) == 0 {
			return false
		}
		for _, u := range uses {
			g, o := sawGo, sawOnce
			switch u.kind {
			case "go":
				g = true
			case "once":
				o = true
			case "call", "defer":
			default:
				return false
			}
			if g && o {
				continue // credit earned: whatever runs this chain, the site runs once, on its own goroutine
			}
			if !up(enclosingLit(u.at), g, o, depth+1) {
				return false
			}
		}
		return true
	}
	return up(enclosingLit(site), false, false, 0)
}
