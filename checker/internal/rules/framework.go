// Package rules holds the repository-specific rules R1–R17 (DESIGN.md §3). Each rule turns the
// type-checked source into a finite set of obligations and decides every one of them.
package rules

import (
	"fmt"
	"go/ast"
	"go/token"
	"go/types"
	"sort"
	"strings"

	"utilverif/internal/core"
)

// Verdict of one obligation.
type Verdict string

const (
	Discharged Verdict = "discharged"
	Violated   Verdict = "violated"
	Undecided  Verdict = "undecided"
)

// Obligation is one decided (or undecidable) instance of a rule.
type Obligation struct {
	Rule      string   `json:"rule"`
	Construct string   `json:"construct"`
	Pos       string   `json:"pos"`
	Verdict   Verdict  `json:"verdict"`
	Detail    string   `json:"detail,omitempty"`
	Witness   []string `json:"witness,omitempty"`
	Paths     int      `json:"paths,omitempty"`
	Trivial   bool     `json:"trivial,omitempty"`
}

// Ctx is what a rule runs against.
type Ctx struct {
	Prog  *core.Prog
	Scope map[string]bool // package paths (relative to the module) the rule may look at; nil = all
	Obls  []*Obligation
	// statistics for evidence
	FuncsWalked map[string]bool
	PathsWalked int
	Notes       []string
	// caches shared between rules
	cache map[string]interface{}
}

// NewCtx makes a context.
func NewCtx(p *core.Prog) *Ctx {
	return &Ctx{Prog: p, FuncsWalked: map[string]bool{}, cache: map[string]interface{}{}}
}

// Add records an obligation.
func (c *Ctx) Add(o *Obligation) *Obligation {
	c.Obls = append(c.Obls, o)
	return o
}

// Ok / Bad / Und are shorthands.
func (c *Ctx) Ok(rule, construct string, pos token.Pos, detail string) *Obligation {
	return c.Add(&Obligation{Rule: rule, Construct: construct, Pos: c.Prog.Pos(pos), Verdict: Discharged, Detail: detail})
}

func (c *Ctx) Bad(rule, construct string, pos token.Pos, detail string, witness []string) *Obligation {
	return c.Add(&Obligation{Rule: rule, Construct: construct, Pos: c.Prog.Pos(pos), Verdict: Violated, Detail: detail, Witness: witness})
}

func (c *Ctx) Und(rule, construct string, pos token.Pos, detail string) *Obligation {
	return c.Add(&Obligation{Rule: rule, Construct: construct, Pos: c.Prog.Pos(pos), Verdict: Undecided, Detail: detail})
}

// MissingAnchor reports an anchor symbol that does not resolve any more.
func (c *Ctx) MissingAnchor(rule, what string) {
	c.Add(&Obligation{Rule: "anchor-missing", Construct: rule + "/" + what, Pos: "-", Verdict: Violated,
		Detail: "anchor symbol " + what + " of rule " + rule + " does not resolve: the rule no longer sees the code it judges"})
}

// InScope reports whether a package (path relative to the module) is in the rule's scope.
func (c *Ctx) InScope(rel string) bool { return c.Scope == nil || c.Scope[rel] }

// RelPkg returns a package path relative to the module.
func RelPkg(path string) string {
	return strings.TrimPrefix(strings.TrimPrefix(path, core.ModPath), "/")
}

// Walk runs the walker and keeps the statistics; an Undecided walk becomes an undecided obligation.
func (c *Ctx) Walk(rule string, cfg *core.Config, e core.Entry, onPath func(*core.Path)) bool {
	name := e.Name
	if name == "" && e.Decl != nil {
		name = core.FuncName(e.Decl.Obj)
	}
	c.FuncsWalked[name] = true
	n, err := core.Walk(c.Prog, cfg, e, onPath)
	c.PathsWalked += n
	if err != nil {
		pos := token.NoPos
		if e.Decl != nil {
			pos = e.Decl.Decl.Pos()
		} else if e.Lit != nil {
			pos = e.Lit.Pos()
		}
		c.Und(rule, name+"/walk", pos, err.Error())
		return false
	}
	return true
}

// Rule is one rule of the catalogue.
type Rule struct {
	ID   string
	Text string
	Run  func(c *Ctx)
}

var registry = map[string]*Rule{}

func register(r *Rule) { registry[r.ID] = r }

// Get returns a rule by id.
func Get(id string) *Rule { return registry[id] }

// IDs lists the registered rules.
func IDs() []string {
	var ids []string
	for id := range registry {
		ids = append(ids, id)
	}
	sort.Strings(ids)
	return ids
}

// ---------------------------------------------------------------------------------------------
// helpers shared by rules

func unparen(e ast.Expr) ast.Expr {
	for {
		p, ok := e.(*ast.ParenExpr)
		if !ok {
			return e
		}
		e = p.X
	}
}

// identVar resolves an identifier expression to a variable in a frame.
func identVar(e ast.Expr, fr *core.Frame) *types.Var {
	id, ok := unparen(e).(*ast.Ident)
	if !ok || fr == nil {
		return nil
	}
	info := fr.Info()
	o := info.Uses[id]
	if o == nil {
		o = info.Defs[id]
	}
	v, _ := o.(*types.Var)
	return v
}

// fieldVar resolves x.f to the (origin) field variable.
func fieldVar(e ast.Expr, fr *core.Frame) *types.Var {
	sel, ok := unparen(e).(*ast.SelectorExpr)
	if !ok || fr == nil {
		return nil
	}
	if s, ok := fr.Info().Selections[sel]; ok {
		if v, ok := s.Obj().(*types.Var); ok {
			return v.Origin()
		}
	}
	return nil
}

// varOf resolves an identifier or a field selector to its variable.
func varOf(e ast.Expr, fr *core.Frame) *types.Var {
	if v := identVar(e, fr); v != nil {
		return v
	}
	return fieldVar(e, fr)
}

// rootIdent returns the root identifier of a selector/index/star chain.
func rootIdent(e ast.Expr) *ast.Ident {
	for {
		switch x := unparen(e).(type) {
		case *ast.Ident:
			return x
		case *ast.SelectorExpr:
			e = x.X
		case *ast.IndexExpr:
			e = x.X
		case *ast.StarExpr:
			e = x.X
		case *ast.UnaryExpr:
			e = x.X
		case *ast.CallExpr:
			return nil
		default:
			return nil
		}
	}
}

// funcOfDecl renders pkg.(*T).M for a declaration.
func funcOfDecl(d *core.FuncDecl) string { return core.FuncName(d.Obj) }

// declsInScope lists the declared functions of the packages in scope, sorted.
func (c *Ctx) declsInScope() []*core.FuncDecl {
	var out []*core.FuncDecl
	for _, d := range c.Prog.Funcs {
		if c.InScope(RelPkg(d.Pkg.PkgPath)) {
			out = append(out, d)
		}
	}
	sort.Slice(out, func(i, j int) bool { return out[i].Decl.Pos() < out[j].Decl.Pos() })
	return out
}

func lockNames(hs []core.Held) []string {
	var s []string
	for _, h := range hs {
		s = append(s, core.LockName(h.Var))
	}
	sort.Strings(s)
	return s
}

func sprintf(format string, a ...interface{}) string { return fmt.Sprintf(format, a...) }

// callsMethodNamed reports whether expression e contains a call of a method with one of the names
// on a receiver of a sync/atomic type.
func atomicElection(e ast.Expr, fr *core.Frame) bool {
	found := false
	ast.Inspect(e, func(n ast.Node) bool {
		call, ok := n.(*ast.CallExpr)
		if !ok {
			return true
		}
		sel, ok := unparen(call.Fun).(*ast.SelectorExpr)
		if !ok {
			return true
		}
		if sel.Sel.Name != "Swap" && sel.Sel.Name != "CompareAndSwap" {
			return true
		}
		if t := fr.Info().TypeOf(sel.X); t != nil && core.IsAtomicType(t) {
			found = true
		}
		return true
	})
	return found
}

// ordinal names a node by its rank among the nodes of the same syntactic kind in the enclosing
// declared function (source order), so that constructs do not depend on line numbers.
func (c *Ctx) ordinal(n ast.Node) string {
	d := c.Prog.EnclosingDecl(n.Pos())
	if d == nil {
		return "#?"
	}
	k := 0
	ast.Inspect(d.Decl, func(x ast.Node) bool {
		if x == nil {
			return true
		}
		if x.Pos() < n.Pos() && sameKind(x, n) {
			k++
		}
		return true
	})
	return sprintf("#%d", k+1)
}

func sameKind(a, b ast.Node) bool {
	switch a.(type) {
	case *ast.SelectStmt:
		_, ok := b.(*ast.SelectStmt)
		return ok
	case *ast.ForStmt:
		_, ok := b.(*ast.ForStmt)
		return ok
	case *ast.ReturnStmt:
		_, ok := b.(*ast.ReturnStmt)
		return ok
	case *ast.CallExpr:
		_, ok := b.(*ast.CallExpr)
		return ok
	case *ast.UnaryExpr:
		_, ok := b.(*ast.UnaryExpr)
		return ok
	}
	return false
}
