// Package rules holds the repository-specific rules R1–R17 (DESIGN.md §3). Each rule turns the
// type-checked source into a finite set of obligations and decides every one of them.
package rules

import (
	"fmt"
	"go/ast"
	"go/token"
	"go/types"
	"golang.org/x/tools/go/types/typeutil"
	"sort"
	"strings"
	"sync"

	"utilverif/internal/core"
)

// Verdict of one obligation.
type Verdict string

const (
	Discharged Verdict = "discharged"
	Violated   Verdict = "violated"
	Undecided  Verdict = "undecided"
)

// Obligation is one decided (or undecidable) instance of a rule.
type Obligation struct {
	Rule      string   `json:"rule"`
	Construct string   `json:"construct"`
	Pos       string   `json:"pos"`
	Verdict   Verdict  `json:"verdict"`
	Detail    string   `json:"detail,omitempty"`
	Witness   []string `json:"witness,omitempty"`
	Paths     int      `json:"paths,omitempty"`
	Trivial   bool     `json:"trivial,omitempty"`
	// Topic names the mechanism a row belongs to when the function it is anchored in was found by
	// structure ("removal", "last-ref" …): properties select such rows by topic, not by the name the
	// function happens to have today.
	Topic string `json:"topic,omitempty"`
}

// Ctx is what a rule runs against.
type Ctx struct {
	Prog  *core.Prog
	Scope map[string]bool // package paths (relative to the module) the rule may look at; nil = all
	Obls  []*Obligation
	// statistics for evidence
	FuncsWalked map[string]bool
	PathsWalked int
	// the largest single walk (paths, rule:entry): how far the run was from the per-entry path cap
	MaxEntryPaths int
	MaxEntryName  string
	Notes         []string
	// caches shared between rules
	cache map[string]interface{}
}

// NewCtx makes a context.
func NewCtx(p *core.Prog) *Ctx {
	return &Ctx{Prog: p, FuncsWalked: map[string]bool{}, cache: map[string]interface{}{}}
}

// Add records an obligation.
func (c *Ctx) Add(o *Obligation) *Obligation {
	c.Obls = append(c.Obls, o)
	return o
}

// Ok / Bad / Und are shorthands.
func (c *Ctx) Ok(rule, construct string, pos token.Pos, detail string) *Obligation {
	return c.Add(&Obligation{Rule: rule, Construct: construct, Pos: c.Prog.Pos(pos), Verdict: Discharged, Detail: detail})
}

func (c *Ctx) Bad(rule, construct string, pos token.Pos, detail string, witness []string) *Obligation {
	return c.Add(&Obligation{Rule: rule, Construct: construct, Pos: c.Prog.Pos(pos), Verdict: Violated, Detail: detail, Witness: witness})
}

func (c *Ctx) Und(rule, construct string, pos token.Pos, detail string) *Obligation {
	return c.Add(&Obligation{Rule: rule, Construct: construct, Pos: c.Prog.Pos(pos), Verdict: Undecided, Detail: detail})
}

// MissingAnchor reports an anchor symbol that does not resolve any more.
func (c *Ctx) MissingAnchor(rule, what string) {
	c.Add(&Obligation{Rule: "anchor-missing", Construct: rule + "/" + what, Pos: "-", Verdict: Violated,
		Detail: "anchor symbol " + what + " of rule " + rule + " does not resolve: the rule no longer sees the code it judges"})
}

// InScope reports whether a package (path relative to the module) is in the rule's scope.
func (c *Ctx) InScope(rel string) bool { return c.Scope == nil || c.Scope[rel] }

// RelPkg returns a package path relative to the module.
func RelPkg(path string) string {
	return strings.TrimPrefix(strings.TrimPrefix(path, core.ModPath), "/")
}

// Walk runs the walker and keeps the statistics; an Undecided walk becomes an undecided obligation.
func (c *Ctx) Walk(rule string, cfg *core.Config, e core.Entry, onPath func(*core.Path)) bool {
	name := e.Name
	if name == "" && e.Decl != nil {
		name = core.FuncName(e.Decl.Obj)
	}
	c.FuncsWalked[name] = true
	n, err := core.Walk(c.Prog, cfg, e, onPath)
	c.PathsWalked += n
	if n > c.MaxEntryPaths {
		c.MaxEntryPaths, c.MaxEntryName = n, rule+":"+name
	}
	if err != nil {
		pos := token.NoPos
		if e.Decl != nil {
			pos = e.Decl.Decl.Pos()
		} else if e.Lit != nil {
			pos = e.Lit.Pos()
		}
		c.Und(rule, name+"/walk", pos, err.Error())
		return false
	}
	return true
}

// Rule is one rule of the catalogue.
type Rule struct {
	ID   string
	Text string
	Run  func(c *Ctx)
}

var registry = map[string]*Rule{}

func register(r *Rule) { registry[r.ID] = r }

// Get returns a rule by id.
func Get(id string) *Rule { return registry[id] }

// IDs lists the registered rules.
func IDs() []string {
	var ids []string
	for id := range registry {
		ids = append(ids, id)
	}
	sort.Strings(ids)
	return ids
}

// ---------------------------------------------------------------------------------------------
// helpers shared by rules

func unparen(e ast.Expr) ast.Expr {
	for {
		p, ok := e.(*ast.ParenExpr)
		if !ok {
			return e
		}
		e = p.X
	}
}

// identVar resolves an identifier expression to a variable in a frame.
func identVar(e ast.Expr, fr *core.Frame) *types.Var {
	id, ok := unparen(e).(*ast.Ident)
	if !ok || fr == nil {
		if fr != nil {
			// x.f where x is a local struct VALUE: a local variable in all but syntax (locals grouped
			// into a small struct)
			return localFieldVar(e, fr)
		}
		return nil
	}
	info := fr.Info()
	o := info.Uses[id]
	if o == nil {
		o = info.Defs[id]
	}
	v, _ := o.(*types.Var)
	return v
}

// ---- fields of local struct values as virtual locals ---------------------------------------------

type synthKey struct{ base, field *types.Var }

var (
	synthMu   sync.Mutex
	synthVars = map[synthKey]*types.Var{}
	synthInfo = map[*types.Var]synthKey{}
)

// localFieldVar: for x.f with x a function-local (or parameter) variable of struct type — a value,
// not a pointer — returns the virtual local standing for that field of that variable.
func localFieldVar(e ast.Expr, fr *core.Frame) *types.Var {
	sel, ok := unparen(e).(*ast.SelectorExpr)
	if !ok {
		return nil
	}
	id, ok := unparen(sel.X).(*ast.Ident)
	if !ok {
		return nil
	}
	info := fr.Info()
	o := info.Uses[id]
	if o == nil {
		o = info.Defs[id]
	}
	base, _ := o.(*types.Var)
	if base == nil || base.IsField() || base.Pkg() == nil || base.Parent() == base.Pkg().Scope() {
		return nil
	}
	if _, isStruct := base.Type().Underlying().(*types.Struct); !isStruct {
		return nil
	}
	s, ok := info.Selections[sel]
	if !ok || s.Kind() != types.FieldVal || len(s.Index()) != 1 {
		return nil
	}
	fv, _ := s.Obj().(*types.Var)
	if fv == nil || core.LockKindOf(fv.Type()) != core.NotLock {
		return nil
	}
	return virtualLocal(base, fv.Origin())
}

func virtualLocal(base, field *types.Var) *types.Var {
	synthMu.Lock()
	defer synthMu.Unlock()
	k := synthKey{base, field}
	if v, ok := synthVars[k]; ok {
		return v
	}
	v := types.NewVar(base.Pos(), base.Pkg(), base.Name()+"."+field.Name(), field.Type())
	synthVars[k] = v
	synthInfo[v] = k
	return v
}

// baseVar is the declared variable a (possibly virtual) local belongs to.
func baseVar(v *types.Var) *types.Var {
	synthMu.Lock()
	defer synthMu.Unlock()
	if k, ok := synthInfo[v]; ok {
		return k.base
	}
	return v
}

func virtualField(v *types.Var) *types.Var {
	synthMu.Lock()
	defer synthMu.Unlock()
	if k, ok := synthInfo[v]; ok {
		return k.field
	}
	return nil
}

// accessVar: the variable an access event is about — a field of a local struct value counts as a
// (virtual) local.
func accessVar(ev *core.Event) *types.Var {
	v := ev.Var
	if v != nil && v.IsField() && ev.Base != nil {
		if id, ok := unparen(ev.Base).(*ast.Ident); ok {
			info := ev.Frame.Info()
			o := info.Uses[id]
			if o == nil {
				o = info.Defs[id]
			}
			if base, _ := o.(*types.Var); base != nil && !base.IsField() && base.Pkg() != nil && base.Parent() != base.Pkg().Scope() {
				if _, isStruct := base.Type().Underlying().(*types.Struct); isStruct && core.LockKindOf(v.Type()) == core.NotLock {
					return virtualLocal(base, v.Origin())
				}
			}
		}
	}
	return v
}

// fieldVar resolves x.f to the (origin) field variable.
func fieldVar(e ast.Expr, fr *core.Frame) *types.Var {
	sel, ok := unparen(e).(*ast.SelectorExpr)
	if !ok || fr == nil {
		return nil
	}
	if s, ok := fr.Info().Selections[sel]; ok {
		if v, ok := s.Obj().(*types.Var); ok {
			return v.Origin()
		}
	}
	return nil
}

// varOf resolves an identifier or a field selector to its variable.
func varOf(e ast.Expr, fr *core.Frame) *types.Var {
	if v := identVar(e, fr); v != nil {
		return v
	}
	return fieldVar(e, fr)
}

// rootIdent returns the root identifier of a selector/index/star chain.
func rootIdent(e ast.Expr) *ast.Ident {
	for {
		switch x := unparen(e).(type) {
		case *ast.Ident:
			return x
		case *ast.SelectorExpr:
			e = x.X
		case *ast.IndexExpr:
			e = x.X
		case *ast.StarExpr:
			e = x.X
		case *ast.UnaryExpr:
			e = x.X
		case *ast.CallExpr:
			return nil
		default:
			return nil
		}
	}
}

// funcOfDecl renders pkg.(*T).M for a declaration.
func funcOfDecl(d *core.FuncDecl) string { return core.FuncName(d.Obj) }

// declsInScope lists the declared functions of the packages in scope, sorted.
func (c *Ctx) declsInScope() []*core.FuncDecl {
	var out []*core.FuncDecl
	for _, d := range c.Prog.Funcs {
		if c.InScope(RelPkg(d.Pkg.PkgPath)) {
			out = append(out, d)
		}
	}
	sort.Slice(out, func(i, j int) bool { return out[i].Decl.Pos() < out[j].Decl.Pos() })
	return out
}

func lockNames(hs []core.Held) []string {
	var s []string
	for _, h := range hs {
		s = append(s, core.LockName(h.Var))
	}
	sort.Strings(s)
	return s
}

func sprintf(format string, a ...interface{}) string { return fmt.Sprintf(format, a...) }

// callsMethodNamed reports whether expression e contains a call of a method with one of the names
// on a receiver of a sync/atomic type.
func atomicElection(e ast.Expr, fr *core.Frame) bool {
	found := false
	ast.Inspect(e, func(n ast.Node) bool {
		call, ok := n.(*ast.CallExpr)
		if !ok {
			return true
		}
		sel, ok := unparen(call.Fun).(*ast.SelectorExpr)
		if !ok {
			return true
		}
		if sel.Sel.Name != "Swap" && sel.Sel.Name != "CompareAndSwap" {
			return true
		}
		if t := fr.Info().TypeOf(sel.X); t != nil && core.IsAtomicType(t) {
			found = true
		}
		return true
	})
	return found
}

// ordinal names a node by its rank among the nodes of the same syntactic kind in the enclosing
// declared function (source order), so that constructs do not depend on line numbers.
func (c *Ctx) ordinal(n ast.Node) string {
	d := c.Prog.EnclosingDecl(n.Pos())
	if d == nil {
		return "#?"
	}
	k := 0
	ast.Inspect(d.Decl, func(x ast.Node) bool {
		if x == nil {
			return true
		}
		if x.Pos() < n.Pos() && sameKind(x, n) {
			k++
		}
		return true
	})
	return sprintf("#%d", k+1)
}

// callOrdinal names a call by its callee and its rank among the calls of that callee in the function:
// call(Await)#2.
func (c *Ctx) callOrdinal(call *ast.CallExpr, info *types.Info) string {
	nameOf := func(x *ast.CallExpr) string {
		switch f := unparen(x.Fun).(type) {
		case *ast.SelectorExpr:
			return f.Sel.Name
		case *ast.Ident:
			return f.Name
		}
		return "func"
	}
	name := nameOf(call)
	d := c.Prog.EnclosingDecl(call.Pos())
	if d == nil {
		return "call(" + name + ")#?"
	}
	k := 0
	ast.Inspect(d.Decl, func(x ast.Node) bool {
		if y, ok := x.(*ast.CallExpr); ok && y.Pos() < call.Pos() && nameOf(y) == name {
			k++
		}
		return true
	})
	return sprintf("call(%s)#%d", name, k+1)
}

func sameKind(a, b ast.Node) bool {
	switch a.(type) {
	case *ast.SelectStmt:
		_, ok := b.(*ast.SelectStmt)
		return ok
	case *ast.ForStmt:
		_, ok := b.(*ast.ForStmt)
		return ok
	case *ast.ReturnStmt:
		_, ok := b.(*ast.ReturnStmt)
		return ok
	case *ast.CallExpr:
		_, ok := b.(*ast.CallExpr)
		return ok
	case *ast.UnaryExpr:
		_, ok := b.(*ast.UnaryExpr)
		return ok
	}
	return false
}

// ---------------------------------------------------------------------------------------------
// Roles: locals and parameters are identified in atoms by their role in the declaring function
// (receiver, parameter index, named result index, k-th local of its type), never by their name,
// so renaming a variable does not change any formula.

// Role returns the rename-independent identity of a non-field variable.
func (c *Ctx) Role(v *types.Var) string {
	if v == nil {
		return "?"
	}
	if r, ok := c.cache["role"]; ok {
		if s, ok := r.(map[*types.Var]string)[v]; ok {
			return s
		}
	} else {
		c.cache["role"] = map[*types.Var]string{}
		c.cache["roleNames"] = map[string]string{}
	}
	roles := c.cache["role"].(map[*types.Var]string)
	names := c.cache["roleNames"].(map[string]string)
	set := func(s string) string {
		roles[v] = s
		names[s] = v.Name()
		return s
	}
	if f := virtualField(v); f != nil {
		return set(c.Role(baseVar(v)) + "." + f.Name())
	}
	d := c.Prog.EnclosingDecl(v.Pos())
	if d == nil {
		return set(v.Name())
	}
	fn := core.FuncName(d.Obj)
	info := d.Pkg.TypesInfo
	if d.Decl.Recv != nil && len(d.Decl.Recv.List) == 1 {
		for _, n := range d.Decl.Recv.List[0].Names {
			if info.Defs[n] == types.Object(v) {
				return set(fn + ":recv")
			}
		}
	}
	fieldIdx := func(fl *ast.FieldList) int {
		if fl == nil {
			return -1
		}
		i := 0
		for _, f := range fl.List {
			for _, n := range f.Names {
				if info.Defs[n] == types.Object(v) {
					return i
				}
				i++
			}
			if len(f.Names) == 0 {
				i++
			}
		}
		return -1
	}
	if i := fieldIdx(d.Decl.Type.Params); i >= 0 {
		return set(sprintf("%s:p%d", fn, i))
	}
	if i := fieldIdx(d.Decl.Type.Results); i >= 0 {
		return set(sprintf("%s:res%d", fn, i))
	}
	// parameter or result of a literal
	litK := 0
	found := ""
	ast.Inspect(d.Decl.Body, func(n ast.Node) bool {
		if l, ok := n.(*ast.FuncLit); ok {
			litK++
			if found == "" {
				if i := fieldIdx(l.Type.Params); i >= 0 {
					found = sprintf("%s:lit%d.p%d", fn, litK, i)
				} else if i := fieldIdx(l.Type.Results); i >= 0 {
					found = sprintf("%s:lit%d.res%d", fn, litK, i)
				}
			}
		}
		return found == ""
	})
	if found != "" {
		return set(found)
	}
	// k-th local of its type, in declaration order
	ts := types.TypeString(v.Type(), func(p *types.Package) string { return p.Name() })
	k := 0
	for id, o := range info.Defs {
		lv, ok := o.(*types.Var)
		if !ok || lv.IsField() || id.Pos() < d.Decl.Pos() || id.Pos() >= d.Decl.End() {
			continue
		}
		if lv.Pos() < v.Pos() && types.TypeString(lv.Type(), func(p *types.Package) string { return p.Name() }) == ts {
			k++
		}
	}
	return set(sprintf("%s:%s#%d", fn, ts, k+1))
}

// Pretty replaces role tokens by the variable names they stand for (for messages only).
func (c *Ctx) Pretty(s string) string {
	m, ok := c.cache["roleNames"].(map[string]string)
	if !ok {
		return s
	}
	var keys []string
	for k := range m {
		keys = append(keys, k)
	}
	sort.Slice(keys, func(i, j int) bool { return len(keys[i]) > len(keys[j]) })
	for _, k := range keys {
		s = strings.ReplaceAll(s, k, m[k])
	}
	return s
}

// structural look-ups used by rule rows -----------------------------------------------------------

// paramWhere returns the first parameter of d whose type satisfies pred.
func paramWhere(d *core.FuncDecl, pred func(types.Type) bool) *types.Var {
	for _, p := range paramVars(d) {
		if p != nil && pred(p.Type()) {
			return p
		}
	}
	return nil
}

func isBoolType(t types.Type) bool { return isBasic(t, types.IsBoolean) }

func isErrorType(t types.Type) bool {
	return types.Identical(t, types.Universe.Lookup("error").Type())
}

// localWhere returns the first local variable (declaration order) declared inside node whose
// definition satisfies pred.
func localWhere(d *core.FuncDecl, within ast.Node, pred func(v *types.Var, id *ast.Ident) bool) *types.Var {
	var best *types.Var
	var bestPos token.Pos
	for id, o := range d.Pkg.TypesInfo.Defs {
		v, ok := o.(*types.Var)
		if !ok || v.IsField() || id.Pos() < within.Pos() || id.Pos() >= within.End() {
			continue
		}
		if pred(v, id) && (best == nil || id.Pos() < bestPos) {
			best, bestPos = v, id.Pos()
		}
	}
	return best
}

// assignedFromCall returns the variable that receives result idx of the first call inside `within`
// that satisfies pred (x := call, x, y := call, x = call).
func assignedFromCall(d *core.FuncDecl, within ast.Node, idx int, pred func(call *ast.CallExpr) bool) *types.Var {
	var out *types.Var
	ast.Inspect(within, func(n ast.Node) bool {
		if out != nil {
			return false
		}
		var lhs []ast.Expr
		var rhs []ast.Expr
		switch s := n.(type) {
		case *ast.AssignStmt:
			lhs, rhs = s.Lhs, s.Rhs
		case *ast.ValueSpec:
			for _, nm := range s.Names {
				lhs = append(lhs, nm)
			}
			rhs = s.Values
		default:
			return true
		}
		if len(rhs) != 1 || idx >= len(lhs) {
			return true
		}
		call, ok := unparen(rhs[0]).(*ast.CallExpr)
		if !ok || !pred(call) {
			return true
		}
		out = identVar(lhs[idx], &core.Frame{Pkg: d.Pkg})
		return true
	})
	return out
}

// callSel reports a call of the form X.name(...).
func callSel(call *ast.CallExpr, name string) (ast.Expr, bool) {
	sel, ok := unparen(call.Fun).(*ast.SelectorExpr)
	if !ok || sel.Sel.Name != name {
		return nil, false
	}
	return sel.X, true
}

// returnExprs gives the result expressions of the KReturn event at index i with two normalisations: a
// bare return is expanded to the named results, and a result that is a plain local (a named result or
// a temporary) is replaced by the simple expression last assigned to it on the path in the same frame
// (err = context.Canceled … return val, err reads as return val, context.Canceled). The frame to
// evaluate each expression in is the return's frame.
func returnExprs(p *core.Path, i int) []ast.Expr {
	ev := p.Events[i]
	res := ev.Results
	if len(res) == 0 {
		if ft := ev.Frame.FuncType(); ft != nil && ft.Results != nil {
			for _, f := range ft.Results.List {
				for _, n := range f.Names {
					res = append(res, n)
				}
			}
		}
	}
	out := make([]ast.Expr, len(res))
	copy(out, res)
	simple := func(e ast.Expr) bool {
		ok := true
		ast.Inspect(e, func(n ast.Node) bool {
			switch x := n.(type) {
			case *ast.FuncLit, *ast.BinaryExpr, *ast.IndexExpr, *ast.SliceExpr, *ast.TypeAssertExpr, *ast.CompositeLit:
				ok = false
			case *ast.CallExpr:
				if len(x.Args) != 0 {
					ok = false
				}
			}
			return ok
		})
		return ok
	}
	for k, r := range out {
		for depth := 0; depth < 3; depth++ {
			v := identVar(r, ev.Frame)
			if v == nil || v.IsField() {
				break
			}
			var src ast.Expr
			for j := i - 1; j >= 0; j-- {
				b := p.Events[j]
				if b.Kind == core.KIncDec && b.Frame == ev.Frame && identVar(b.Lhs, b.Frame) == v {
					break
				}
				if b.Kind != core.KAssign || b.FieldInit || identVar(b.Lhs, b.Frame) != v {
					continue
				}
				if b.Frame == ev.Frame && b.Rhs != nil && b.RhsIdx < 0 && (b.Tok == token.ASSIGN || b.Tok == token.DEFINE) && simple(b.Rhs) {
					src = b.Rhs
				}
				break
			}
			if src == nil {
				break
			}
			r = src
			out[k] = src
		}
	}
	return out
}

// returnExprsC is returnExprs with one more normalisation: return helper(args…) where the helper is a
// same-module function that was not walked in place and whose body only declares zero values and
// returns a tuple built from its parameters and those zero values (func fail[T any](err error) (T, error)
// { var zero T; return zero, err }) reads as the tuple with the arguments substituted; results that are
// not parameters are left as the helper's own (zero-valued) identifiers.
func returnExprsC(c *Ctx, p *core.Path, i int) []ast.Expr {
	rs := returnExprs(p, i)
	if len(rs) != 1 {
		return rs
	}
	ev := p.Events[i]
	call, ok := unparen(rs[0]).(*ast.CallExpr)
	if !ok {
		return rs
	}
	f, _ := typeutil.Callee(ev.Frame.Info(), call).(*types.Func)
	if f == nil {
		return rs
	}
	d := c.Prog.Decl(f.Origin())
	if d == nil || d.Decl.Body == nil || len(d.Decl.Body.List) == 0 {
		return rs
	}
	body := d.Decl.Body.List
	ret, ok := body[len(body)-1].(*ast.ReturnStmt)
	if !ok || len(ret.Results) < 2 {
		return rs
	}
	for _, st := range body[:len(body)-1] {
		ds, ok := st.(*ast.DeclStmt)
		if !ok {
			return rs
		}
		gd, ok := ds.Decl.(*ast.GenDecl)
		if !ok || gd.Tok != token.VAR {
			return rs
		}
		for _, sp := range gd.Specs {
			if vs, ok := sp.(*ast.ValueSpec); !ok || len(vs.Values) != 0 {
				return rs
			}
		}
	}
	params := paramVars(d)
	out := make([]ast.Expr, len(ret.Results))
	for k, r := range ret.Results {
		out[k] = r
		if id, ok := unparen(r).(*ast.Ident); ok {
			if v, _ := d.Pkg.TypesInfo.ObjectOf(id).(*types.Var); v != nil {
				for pi, pv := range params {
					if pv == v && pi < len(call.Args) {
						out[k] = call.Args[pi]
					}
				}
			}
		}
	}
	return out
}
