package rules

import (
	"go/ast"
	"go/token"
	"go/types"
	"sort"
	"strings"

	"golang.org/x/tools/go/types/typeutil"

	"utilverif/internal/core"
)

// Guarded-effect engine (DESIGN.md §3 R12): an effect on a path must be implied by the branch
// decisions that precede it. Conditions are turned into formulas over canonical atoms:
//
//	field / local                      ->  F(x)            (boolean)
//	x == 0, x == nil                   ->  EQ(x,0) / EQ(x,nil)
//	a == b, a != b                     ->  EQ(a,b) (operands sorted) / !EQ
//	a < b, a >= b, a > b, a <= b       ->  LT(a,b), !LT(a,b), LT(b,a), !LT(b,a)
//
// so De Morgan, reordering, early returns and switch forms of one condition are the same formula
// and an off-by-one is a different one. Terms: Type.field for fields, the plain name for locals and
// parameters of the function under analysis, literal constants, X.Load() of an atomic as X.

type gbuilder struct {
	c     *Ctx
	defs  map[*types.Var]localDef
	depth int
	sec   int // section instance of the expression being built
	g     *gpath
}

// usable: a definition that read shared state stands for that state only inside the section it
// was made in.
func (b *gbuilder) usable(d localDef) bool {
	return (d.expr != nil || d.alias != nil) && (!d.shared || d.sec == b.sec)
}

// defTerm / defFormula: what a usable definition stands for.
func (b *gbuilder) defTerm(d localDef) (string, bool) {
	if d.alias != nil {
		if d2, ok := b.defs[d.alias]; ok && b.usable(d2) && b.depth < 6 {
			b.depth++
			defer func() { b.depth-- }()
			return b.defTerm(d2)
		}
		return b.c.Role(d.alias), true
	}
	return b.term(d.expr, d.fr)
}

func (b *gbuilder) term(e ast.Expr, fr *core.Frame) (string, bool) {
	e = unparen(e)
	if tv, ok := fr.Info().Types[e]; ok && tv.Value != nil {
		return tv.Value.ExactString(), true
	}
	if isNilExpr(e, fr) {
		return "nil", true
	}
	switch x := e.(type) {
	case *ast.Ident:
		if v := identVar(x, fr); v != nil {
			if d, ok := b.defs[v]; ok && b.usable(d) && b.depth < 6 {
				// a local that merely renames a field/len()/Load(): use what it stands for
				b.depth++
				t, ok := b.defTerm(d)
				b.depth--
				if ok {
					return t, true
				}
			}
			if v.IsField() {
				return x.Name, true
			}
			// a parameter of an inlined helper bound to a plain variable/constant of the caller
			// stands for that variable (the helper does not reassign it: checked by paramArg)
			if arg, afr, ok := paramArg(v, fr); ok && b.depth < 6 {
				b.depth++
				t, ok := b.term(arg, afr)
				b.depth--
				if ok {
					return t, true
				}
			}
			// a local of the enclosing function that is assigned exactly once, from a chain of field
			// selections (k, key := r.k, r.key), and is used inside one of its closures: it stands for
			// that chain (the closure may be walked on its own, without the assignment on the path)
			if e2, fr2, ok := capturedFieldAlias(b.c, v); ok && b.depth < 6 {
				b.depth++
				t, ok := b.term(e2, fr2)
				b.depth--
				if ok {
					return t, true
				}
			}
			return b.c.Role(v), true
		}
	case *ast.SelectorExpr:
		if v := localFieldVar(x, fr); v != nil {
			// a field of a local struct value: a local in all but syntax
			if d, ok := b.defs[v]; ok && b.usable(d) && b.depth < 6 {
				b.depth++
				t, ok := b.defTerm(d)
				b.depth--
				if ok {
					return t, true
				}
			}
			return b.c.Role(v), true
		}
		if fv := fieldVar(x, fr); fv != nil {
			return core.FieldName(fv), true
		}
		if id, ok := unparen(x.X).(*ast.Ident); ok {
			if _, isPkg := fr.Info().Uses[id].(*types.PkgName); isPkg {
				return id.Name + "." + x.Sel.Name, true
			}
		}
	case *ast.CallExpr:
		if sel, ok := unparen(x.Fun).(*ast.SelectorExpr); ok && len(x.Args) == 0 {
			if t := fr.Info().TypeOf(sel.X); t != nil && core.IsAtomicType(t) && sel.Sel.Name == "Load" {
				return b.term(sel.X, fr)
			}
			// ctx.Err(), x.Len() …: a nullary method on a term
			if rt, ok := b.term(sel.X, fr); ok {
				return rt + "." + sel.Sel.Name + "()", true
			}
		}
		if id, ok := unparen(x.Fun).(*ast.Ident); ok && (id.Name == "len" || id.Name == "cap") && len(x.Args) == 1 {
			if t, ok := b.term(x.Args[0], fr); ok {
				return id.Name + "(" + t + ")", true
			}
		}
	case *ast.IndexExpr:
		a, ok1 := b.term(x.X, fr)
		i, ok2 := b.term(x.Index, fr)
		if ok1 && ok2 {
			return a + "[" + i + "]", true
		}
	case *ast.BinaryExpr:
		a, ok1 := b.term(x.X, fr)
		c2, ok2 := b.term(x.Y, fr)
		if ok1 && ok2 {
			return "(" + a + x.Op.String() + c2 + ")", true
		}
	case *ast.StarExpr:
		return b.term(x.X, fr)
	}
	return "", false
}

func atom(name string) *formula   { return &formula{kind: fAtom, name: name} }
func fand(a, b *formula) *formula { return &formula{kind: fAnd, a: a, b: b} }
func for_(a, b *formula) *formula { return &formula{kind: fOr, a: a, b: b} }

func (b *gbuilder) build(e ast.Expr, fr *core.Frame) *formula {
	e = unparen(e)
	opaque := func() *formula { return atom("opaque:" + core.ExprString(e)) }
	switch x := e.(type) {
	case *ast.UnaryExpr:
		if x.Op == token.NOT {
			return fnot(b.build(x.X, fr))
		}
	case *ast.BinaryExpr:
		switch x.Op {
		case token.LAND:
			return fand(b.build(x.X, fr), b.build(x.Y, fr))
		case token.LOR:
			return for_(b.build(x.X, fr), b.build(x.Y, fr))
		case token.EQL, token.NEQ, token.LSS, token.LEQ, token.GTR, token.GEQ:
			l, ok1 := b.term(x.X, fr)
			r, ok2 := b.term(x.Y, fr)
			if !ok1 || !ok2 {
				return opaque()
			}
			switch x.Op {
			case token.EQL, token.NEQ:
				if r < l {
					l, r = r, l
				}
				f := atom("EQ(" + l + "," + r + ")")
				if x.Op == token.NEQ {
					return fnot(f)
				}
				return f
			case token.LSS:
				return atom("LT(" + l + "," + r + ")")
			case token.GEQ:
				return fnot(atom("LT(" + l + "," + r + ")"))
			case token.GTR:
				return atom("LT(" + r + "," + l + ")")
			case token.LEQ:
				return fnot(atom("LT(" + r + "," + l + ")"))
			}
		}
	case *ast.Ident:
		if tv, ok := fr.Info().Types[x]; ok && tv.Value != nil {
			return &formula{kind: fConst, val: tv.Value.ExactString() == "true"}
		}
		if v := identVar(x, fr); v != nil {
			if d, ok := b.defs[v]; ok && b.usable(d) && b.depth < 6 && isBasic(v.Type(), types.IsBoolean) && d.expr != nil {
				if d.retAt > 0 && b.g != nil {
					// the boolean came out of a helper walked in place (delay, retry := r.next()): it is
					// what the helper returned, read with the definitions in force at that return
					sub := &gbuilder{c: b.c, defs: b.g.defs[d.retAt], sec: b.g.sec[d.retAt], g: b.g, depth: b.depth + 1}
					return sub.build(d.expr, d.fr)
				}
				b.depth++
				f := b.build(d.expr, d.fr)
				b.depth--
				return f
			}
			if arg, afr, ok := paramArg(v, fr); ok && b.depth < 6 {
				b.depth++
				f := b.build(arg, afr)
				b.depth--
				return f
			}
			return atom("F(" + b.c.Role(v) + ")")
		}
	case *ast.SelectorExpr:
		if v := localFieldVar(x, fr); v != nil {
			if d, ok := b.defs[v]; ok && b.usable(d) && b.depth < 6 && isBasic(v.Type(), types.IsBoolean) && d.expr != nil {
				b.depth++
				f := b.build(d.expr, d.fr)
				b.depth--
				return f
			}
		}
		if t, ok := b.term(x, fr); ok {
			return atom("F(" + t + ")")
		}
	case *ast.CallExpr:
		// a call that was walked in place: the condition is what the callee returned on this path
		// (a predicate method such as hasCapacityLocked() stands for the expression it returns)
		if b.g != nil && b.depth < 6 {
			if ri, ok := b.g.rets[x]; ok {
				ret := b.g.p.Events[ri]
				if re, _ := retResult(ret, 0); re != nil && len(ret.Results) <= 1 {
					sub := &gbuilder{c: b.c, defs: b.g.defs[ri], sec: b.g.sec[ri], g: b.g, depth: b.depth + 1}
					return sub.build(re, ret.Frame)
				}
			}
		}
		if t, ok := b.term(x, fr); ok {
			return atom("F(" + t + ")")
		}
		// x.Swap(v) / x.CompareAndSwap(a,b) on an atomic: name it by receiver and arguments
		if sel, ok := unparen(x.Fun).(*ast.SelectorExpr); ok {
			if t := fr.Info().TypeOf(sel.X); t != nil && core.IsAtomicType(t) {
				if rt, ok := b.term(sel.X, fr); ok {
					var as []string
					for _, a := range x.Args {
						at, _ := b.term(a, fr)
						as = append(as, at)
					}
					return atom("F(" + rt + "." + sel.Sel.Name + "(" + strings.Join(as, ",") + "))")
				}
			}
		}
	}
	return opaque()
}

// gpath is a path prepared for guard queries.
type gpath struct {
	c    *Ctx
	p    *core.Path
	defs []map[*types.Var]localDef // defs[i] = definitions visible before event i (shared maps, copy on write)
	lits []*r2Lit                  // lits[i] non-nil for branch events
	// section ids: for every event the index of the innermost open KAcquire, -1 if none
	sec []int
	// rets: call expression of an inlined declared function -> index of its latest KReturn event
	rets map[*ast.CallExpr]int
}

// isAtomicRMW: x.Swap(v) / x.CompareAndSwap(a, b) on a sync/atomic value. Its result is a private
// value of the caller; a local holding it stands for "the result of that operation".
func isAtomicRMW(e ast.Expr, fr *core.Frame) bool {
	call, ok := unparen(e).(*ast.CallExpr)
	if !ok {
		return false
	}
	sel, ok := unparen(call.Fun).(*ast.SelectorExpr)
	if !ok || (sel.Sel.Name != "Swap" && sel.Sel.Name != "CompareAndSwap") {
		return false
	}
	t := fr.Info().TypeOf(sel.X)
	if t == nil || !core.IsAtomicType(t) {
		return false
	}
	for _, a := range call.Args {
		if !isPureOrLoad(a, fr) {
			return false
		}
	}
	return true
}

func isPureOrLoad(e ast.Expr, fr *core.Frame) bool {
	pure := true
	ast.Inspect(e, func(n ast.Node) bool {
		switch x := n.(type) {
		case *ast.CallExpr:
			ok := false
			if sel, isSel := unparen(x.Fun).(*ast.SelectorExpr); isSel && len(x.Args) == 0 {
				if t := fr.Info().TypeOf(sel.X); t != nil && core.IsAtomicType(t) && sel.Sel.Name == "Load" {
					ok = true
				}
			}
			if id, isId := unparen(x.Fun).(*ast.Ident); isId && (id.Name == "len" || id.Name == "cap") {
				ok = true
			}
			if tv, has := fr.Info().Types[x.Fun]; has && tv.IsType() {
				ok = true // conversion
			}
			if sel, isSel := unparen(x.Fun).(*ast.SelectorExpr); isSel && len(x.Args) == 0 && sel.Sel.Name == "Err" {
				if t := fr.Info().TypeOf(sel.X); t != nil && isContextType(t) {
					ok = true // ctx.Err(): a read of the context's state
				}
			}
			if !ok {
				pure = false
			}
		case *ast.FuncLit:
			pure = false
		case *ast.UnaryExpr:
			if x.Op == token.ARROW {
				pure = false
			}
		}
		return pure
	})
	return pure
}

func prepare(c *Ctx, p *core.Path) *gpath {
	g := &gpath{c: c, p: p, defs: make([]map[*types.Var]localDef, len(p.Events)+1), lits: make([]*r2Lit, len(p.Events)), sec: make([]int, len(p.Events)), rets: map[*ast.CallExpr]int{}}
	cur := map[*types.Var]localDef{}
	var open []int
	clone := func() map[*types.Var]localDef {
		n := make(map[*types.Var]localDef, len(cur)+1)
		for k, d := range cur {
			n[k] = d
		}
		return n
	}
	// kill drops the definitions whose expression reads the written variable
	kill := func(w *types.Var) {
		if w == nil {
			return
		}
		var dead []*types.Var
		for k, d := range cur {
			if d.expr != nil && mentionsVar(d.expr, w, d.fr) {
				dead = append(dead, k)
			}
			if d.alias != nil && (d.alias == w || virtualField(d.alias) == w.Origin() || baseVar(d.alias) == w) {
				dead = append(dead, k)
			}
		}
		if len(dead) > 0 {
			cur = clone()
			for _, k := range dead {
				delete(cur, k)
			}
		}
	}
	for i, ev := range p.Events {
		g.defs[i] = cur
		g.sec[i] = -1
		if len(open) > 0 {
			g.sec[i] = open[len(open)-1]
		}
		switch ev.Kind {
		case core.KAcquire:
			open = append(open, i)
			g.sec[i] = i
		case core.KRelease:
			for j := len(open) - 1; j >= 0; j-- {
				if p.Events[open[j]].Lock == ev.Lock {
					open = append(open[:j], open[j+1:]...)
					break
				}
			}
		case core.KReturn:
			if ev.Frame.Call != nil && (ev.Frame.Fn != nil || ev.Frame.Lit != nil) && ev.Frame.CS == nil {
				g.rets[ev.Frame.Call] = i // a declared function or a local closure walked in place
			}
		case core.KBranch:
			gb := &gbuilder{c: c, defs: cur, sec: g.sec[i], g: g}
			g.lits[i] = &r2Lit{f: gb.build(ev.Cond, ev.Frame), val: ev.CondVal}
		case core.KAssign:
			if ev.FieldInit {
				break
			}
			kill(ev.Var)
			// a struct value assigned as a whole (snap = curr): field-wise aliases
			if lv := identVar(ev.Lhs, ev.Frame); lv != nil && !lv.IsField() && virtualField(lv) == nil {
				if st, isStruct := lv.Type().Underlying().(*types.Struct); isStruct {
					cur = clone()
					var src *types.Var
					if ev.Rhs != nil && ev.RhsIdx < 0 && (ev.Tok == token.ASSIGN || ev.Tok == token.DEFINE) {
						if rv := identVar(ev.Rhs, ev.Frame); rv != nil && !rv.IsField() && virtualField(rv) == nil && types.Identical(rv.Type(), lv.Type()) {
							src = rv
						}
					}
					for fi := 0; fi < st.NumFields(); fi++ {
						f := st.Field(fi)
						if orig := structFieldOrigin(lv.Type(), fi); orig != nil {
							f = orig
						}
						k := virtualLocal(lv, f)
						if src != nil {
							cur[k] = localDef{alias: virtualLocal(src, f), fr: ev.Frame, sec: g.sec[i], shared: readsShared(c, ev.Rhs, ev.Frame)}
						} else {
							delete(cur, k)
						}
					}
				}
			}
			if v := identVar(ev.Lhs, ev.Frame); v != nil && !v.IsField() && ev.RetEv != nil && isBasic(v.Type(), types.IsBoolean) && (ev.Tok == token.ASSIGN || ev.Tok == token.DEFINE) {
				// a boolean result of a function walked in place
				ri := -1
				for k := i - 1; k >= 0; k-- {
					if p.Events[k] == ev.RetEv {
						ri = k
						break
					}
				}
				if re, _ := retResult(ev.RetEv, ev.RhsIdx); re != nil && ri > 0 {
					cur = clone()
					cur[v] = localDef{expr: re, fr: ev.RetEv.Frame, sec: g.sec[i], retAt: ri}
					break
				}
			}
			if v := identVar(ev.Lhs, ev.Frame); v != nil && !v.IsField() {
				cur = clone()
				if ev.Rhs != nil && ev.RhsIdx < 0 && (ev.Tok == token.ASSIGN || ev.Tok == token.DEFINE) && isAtomicRMW(ev.Rhs, ev.Frame) {
					cur[v] = localDef{expr: ev.Rhs, fr: ev.Frame, sec: g.sec[i]}
				} else if ev.Rhs != nil && ev.RhsIdx < 0 && (ev.Tok == token.ASSIGN || ev.Tok == token.DEFINE) && isPureOrLoad(ev.Rhs, ev.Frame) && !mentions(ev.Rhs, v, ev.Frame) {
					cur[v] = localDef{expr: ev.Rhs, fr: ev.Frame, sec: g.sec[i], shared: readsShared(c, ev.Rhs, ev.Frame)}
				} else {
					delete(cur, v)
				}
			}
		case core.KIncDec:
			if v := varOf(ev.Lhs, ev.Frame); v != nil {
				kill(v)
				if !v.IsField() {
					cur = clone()
					delete(cur, v)
				}
			}
		case core.KCall:
			if ev.Builtin == "delete" && len(ev.Call.Args) > 0 {
				kill(varOf(ev.Call.Args[0], ev.Frame))
			}
		}
	}
	g.defs[len(p.Events)] = cur
	return g
}

// mentionsVar reports whether e reads the variable w (a local by identity, a field by its origin).
func mentionsVar(e ast.Expr, w *types.Var, fr *core.Frame) bool {
	found := false
	ast.Inspect(e, func(n ast.Node) bool {
		switch x := n.(type) {
		case *ast.Ident:
			if identVar(x, fr) == w {
				found = true
			}
		case *ast.SelectorExpr:
			if fv := fieldVar(x, fr); fv != nil && fv == w.Origin() {
				found = true
			}
		}
		return !found
	})
	return found
}

// readsShared reports whether e reads a struct field, a package variable or a local captured by an
// escaping closure.
func readsShared(c *Ctx, e ast.Expr, fr *core.Frame) bool {
	found := false
	ast.Inspect(e, func(n ast.Node) bool {
		switch x := n.(type) {
		case *ast.CallExpr:
			if id, ok := unparen(x.Fun).(*ast.Ident); !ok || id.Name != "len" && id.Name != "cap" {
				if tv, has := fr.Info().Types[x.Fun]; !has || !tv.IsType() {
					found = true // Load(), ctx.Err(): state that others change
				}
			}
		case *ast.SelectorExpr:
			if fieldVar(x, fr) != nil {
				found = true
			}
		case *ast.Ident:
			if v := identVar(x, fr); v != nil && !v.IsField() {
				if v.Pkg() != nil && v.Parent() == v.Pkg().Scope() {
					found = true
				} else if d := c.Prog.EnclosingDecl(v.Pos()); d != nil {
					ei := core.EscapesOf(c.Prog, d)
					for lit, esc := range ei.Esc {
						if esc == core.EscNone {
							continue
						}
						for _, cv := range ei.Captured[lit] {
							if cv == v {
								found = true
							}
						}
					}
				}
			}
		}
		return !found
	})
	return found
}

func mentions(e ast.Expr, v *types.Var, fr *core.Frame) bool {
	found := false
	ast.Inspect(e, func(n ast.Node) bool {
		if id, ok := n.(*ast.Ident); ok && identVar(id, fr) == v {
			found = true
		}
		return !found
	})
	return found
}

// litsBefore returns the branch literals before event i, optionally only those of the section
// (or, when the event is in no section, of the whole path).
func (g *gpath) litsBefore(i int, sameSection bool) []*r2Lit {
	var out []*r2Lit
	from := 0
	if sameSection && g.sec[i] >= 0 {
		from = g.sec[i]
	}
	for j := from; j < i; j++ {
		if g.lits[j] != nil {
			out = append(out, g.lits[j])
		}
	}
	return out
}

// implies checks conj(lits) => want over all assignments of the atoms; returns a counterexample.
func implies(lits []*r2Lit, want *formula) (bool, string) {
	// only the literals connected to the wanted formula through shared atoms can matter (the others
	// could at most make the path infeasible, which is never used as a proof)
	rel := map[string]*formula{}
	want.atoms(rel)
	used := make([]bool, len(lits))
	for changed := true; changed; {
		changed = false
		for i, l := range lits {
			if used[i] {
				continue
			}
			la := map[string]*formula{}
			l.f.atoms(la)
			for n := range la {
				if _, ok := rel[n]; ok {
					used[i] = true
					changed = true
					for m, f := range la {
						rel[m] = f
					}
					break
				}
			}
		}
	}
	var keep []*r2Lit
	for i, l := range lits {
		if used[i] {
			keep = append(keep, l)
		}
	}
	lits = keep
	atoms := map[string]*formula{}
	for _, l := range lits {
		l.f.atoms(atoms)
	}
	want.atoms(atoms)
	var names []string
	for n := range atoms {
		names = append(names, n)
	}
	sort.Strings(names)
	if len(names) > 18 {
		return false, "too many atoms to decide"
	}
	for mask := 0; mask < 1<<len(names); mask++ {
		st := map[string]int{}
		for i, n := range names {
			st[n] = (mask >> i) & 1
		}
		ok := true
		for _, l := range lits {
			v := l.f.eval(st)
			if (v == 1) != l.val {
				ok = false
				break
			}
		}
		if !ok {
			continue
		}
		if want.eval(st) != 1 {
			var cx []string
			wa := map[string]*formula{}
			want.atoms(wa)
			for _, n := range names {
				if _, in := wa[n]; in {
					cx = append(cx, sprintf("%s=%v", n, st[n] == 1))
				}
			}
			return false, strings.Join(cx, ", ")
		}
	}
	return true, ""
}

func litsString(lits []*r2Lit) string {
	var s []string
	for _, l := range lits {
		if l.val {
			s = append(s, l.f.String())
		} else {
			s = append(s, "!"+l.f.String())
		}
	}
	return strings.Join(s, " && ")
}

// event matchers --------------------------------------------------------------------------------

// assignsField matches a write of a field (by Type.field name), optionally of a given constant.
func assignsField(ev *core.Event, field, val string) bool {
	if ev.Kind != core.KAssign || ev.FieldInit || ev.Var == nil || !ev.Var.IsField() || core.FieldName(ev.Var) != field {
		return false
	}
	if _, isIdx := unparen(ev.Lhs).(*ast.IndexExpr); isIdx {
		return false
	}
	if val == "" {
		return true
	}
	if ev.Rhs == nil || ev.RhsIdx >= 0 {
		return false
	}
	if val == "nil" {
		return isNilExpr(ev.Rhs, ev.Frame)
	}
	tv, ok := ev.Frame.Info().Types[unparen(ev.Rhs)]
	return ok && tv.Value != nil && tv.Value.ExactString() == val
}

func incDecField(ev *core.Event, field string, tok token.Token) bool {
	if ev.Kind != core.KIncDec || ev.Tok != tok {
		return false
	}
	fv := fieldVar(ev.Lhs, ev.Frame)
	return fv != nil && core.FieldName(fv) == field
}

func incDecLocal(ev *core.Event, name string, tok token.Token) bool {
	if ev.Kind != core.KIncDec || ev.Tok != tok {
		return false
	}
	v := identVar(ev.Lhs, ev.Frame)
	return v != nil && !v.IsField() && v.Name() == name
}

// callsFunc matches an inlined or opaque call of a declared function by its rendered name.
func callsFunc(ev *core.Event, name string) bool {
	return (ev.Kind == core.KCall || ev.Kind == core.KEnter) && ev.Callee != nil && core.FuncName(ev.Callee) == name
}

// callsField matches a dynamic call of a func-typed field.
func callsField(ev *core.Event, field string) bool {
	if ev.Kind != core.KCall || ev.Builtin != "" {
		return false
	}
	fv := fieldVar(ev.Call.Fun, ev.Frame)
	return fv != nil && core.FieldName(fv) == field
}

func holdsLock(ev *core.Event, lock string) bool {
	for _, h := range ev.Locks {
		if core.LockName(h.Var) == lock {
			return true
		}
	}
	return false
}

// aggregate helper -------------------------------------------------------------------------------

type agg struct {
	c     *Ctx
	m     map[string]*Obligation
	order []string
	sites map[string]map[token.Pos]bool
	topic string // stamped on the obligations created while it is set
}

func newAgg(c *Ctx) *agg {
	return &agg{c: c, m: map[string]*Obligation{}, sites: map[string]map[token.Pos]bool{}}
}

func (a *agg) note(rule, construct string, pos token.Pos, bad bool, okDetail, badDetail string, p *core.Path) {
	key := rule + "|" + construct
	o := a.m[key]
	if o == nil {
		o = &Obligation{Rule: rule, Construct: construct, Pos: a.c.Prog.Pos(pos), Verdict: Discharged, Detail: okDetail, Topic: a.topic}
		a.m[key] = o
		a.order = append(a.order, key)
		a.sites[key] = map[token.Pos]bool{}
	}
	o.Paths++
	a.sites[key][pos] = true
	if bad && o.Verdict == Discharged {
		o.Verdict = Violated
		o.Detail = badDetail
		o.Pos = a.c.Prog.Pos(pos)
		if p != nil {
			o.Witness = a.c.Prog.Witness(p)
		}
	}
}

// expect adds a violated obligation when a construct never occurred (an instance disappeared).
func (a *agg) expect(rule, construct string, minSites int, what string) {
	key := rule + "|" + construct
	n := len(a.sites[key])
	if n < minSites {
		if o := a.m[key]; o != nil && o.Verdict == Violated {
			return
		}
		o := &Obligation{Rule: rule, Construct: construct, Pos: "-", Verdict: Violated, Topic: a.topic,
			Detail: sprintf("expected at least %d site(s) of %s, found %d: the mechanism the rule judges is gone or was rewritten beyond recognition", minSites, what, n)}
		if old := a.m[key]; old != nil {
			*old = *o
		} else {
			a.m[key] = o
			a.order = append(a.order, key)
		}
	}
}

func (a *agg) flush() {
	for _, k := range a.order {
		o := a.m[k]
		if o.Verdict == Discharged && len(a.sites[k]) > 0 {
			o.Detail += sprintf(" [%d site(s), %d paths]", len(a.sites[k]), o.Paths)
		}
		a.c.Add(o)
	}
}

// requireGuard checks that the literals before event i imply want.
func (a *agg) requireGuard(rule, construct string, g *gpath, i int, sameSection bool, want *formula, what string) {
	ev := g.p.Events[i]
	lits := g.litsBefore(i, sameSection)
	ok, cx := implies(lits, want)
	a.note(rule, construct, ev.Pos, !ok,
		what+" only happens under "+a.c.Pretty(want.String()),
		a.c.Pretty(sprintf("%s happens on a path whose conditions (%s) do not imply the required guard %s (counterexample: %s)", what, litsString(lits), want.String(), cx)), g.p)
}

// walkDecl walks a declared function found by name.
func (c *Ctx) declByName(rule, pkg, recv, name string) *core.FuncDecl {
	f := c.Prog.LookupFunc(pkg, recv, name)
	if f == nil {
		n := pkg + "." + name
		if recv != "" {
			n = pkg + ".(*" + recv + ")." + name
		}
		c.MissingAnchor(rule, n)
		return nil
	}
	d := c.Prog.Decl(f)
	if d == nil {
		c.MissingAnchor(rule, core.FuncName(f)+" (no body)")
	}
	return d
}

func followNames(names ...string) func(*types.Func) bool {
	set := map[string]bool{}
	for _, n := range names {
		set[n] = true
	}
	return func(f *types.Func) bool { return set[core.FuncName(f)] || set[f.Name()] }
}

// escapingLits returns the escaping literals of a declaration in source order.
func escapingLits(c *Ctx, d *core.FuncDecl) []*ast.FuncLit {
	ei := core.EscapesOf(c.Prog, d)
	var lits []*ast.FuncLit
	for l, e := range ei.Esc {
		if e != core.EscNone {
			lits = append(lits, l)
		}
	}
	sort.Slice(lits, func(i, j int) bool { return lits[i].Pos() < lits[j].Pos() })
	return lits
}

// timerLits returns the literals handed to time.AfterFunc inside a declaration (directly or through
// a local bound once), in source order.
func timerLits(c *Ctx, d *core.FuncDecl) []*ast.FuncLit {
	ei := core.EscapesOf(c.Prog, d)
	var out []*ast.FuncLit
	ast.Inspect(d.Decl.Body, func(n ast.Node) bool {
		call, ok := n.(*ast.CallExpr)
		if !ok || len(call.Args) != 2 {
			return true
		}
		sel, ok := unparen(call.Fun).(*ast.SelectorExpr)
		if !ok || sel.Sel.Name != "AfterFunc" {
			return true
		}
		if id, ok := unparen(sel.X).(*ast.Ident); !ok || id.Name != "time" {
			return true
		}
		if l, ok := unparen(call.Args[1]).(*ast.FuncLit); ok {
			out = append(out, l)
		} else if id, ok := unparen(call.Args[1]).(*ast.Ident); ok {
			out = append(out, ei.Bound[d.Pkg.TypesInfo.Uses[id]]...)
		}
		return true
	})
	sort.Slice(out, func(i, j int) bool { return out[i].Pos() < out[j].Pos() })
	return out
}

// aliasOf resolves an identifier used inside an inlined helper back to the caller's variable when
// the helper's parameter was bound to a plain identifier argument.
func aliasOf(p *core.Path, at *core.Event, e ast.Expr) *types.Var {
	v := identVar(e, at.Frame)
	for fr := at.Frame; v != nil && fr != nil && fr.Parent != nil; fr = fr.Parent {
		ft := fr.FuncType()
		if ft == nil || fr.Call == nil {
			if fr.Lit != nil && fr.Parent != nil {
				continue // a literal frame entered without a call expression (section callback): look further up
			}
			return v
		}
		i := 0
		found := false
		for _, f := range ft.Params.List {
			for _, n := range f.Names {
				if fr.Info().Defs[n] == types.Object(v) && i < len(fr.Call.Args) {
					v = identVar(fr.Call.Args[i], fr.Parent)
					found = true
				}
				i++
			}
		}
		// the receiver of an inlined method stands for the receiver expression at the call site
		if !found && fr.Decl != nil && fr.Decl.Recv != nil && len(fr.Decl.Recv.List) == 1 {
			for _, n := range fr.Decl.Recv.List[0].Names {
				if fr.Info().Defs[n] == types.Object(v) {
					if rx := callRecv(fr.Call); rx != nil {
						v = identVar(rx, fr.Parent)
						found = true
					}
				}
			}
		}
		if !found {
			continue // not a parameter of this frame: it may be one of an enclosing frame (a captured parameter)
		}
	}
	return v
}

// paramArg: if v is a parameter of the inlined frame fr whose argument at the call site is a plain
// identifier or a constant, and the callee never assigns the parameter, return that argument and
// the caller's frame.
func paramArg(v *types.Var, fr *core.Frame) (ast.Expr, *core.Frame, bool) {
	// the variable may be used in a literal nested in the helper: find the frame that declares it
	for ; fr != nil; fr = fr.Parent {
		if fr.CS != nil || fr.Parent == nil || fr.Call == nil {
			continue
		}
		if arg, afr, ok := paramArgIn(v, fr); ok {
			return arg, afr, true
		}
	}
	return nil, nil, false
}

func paramArgIn(v *types.Var, fr *core.Frame) (ast.Expr, *core.Frame, bool) {
	ft := fr.FuncType()
	if ft == nil {
		return nil, nil, false
	}
	// the receiver of an inlined method called on a plain variable stands for that variable
	if fr.Decl != nil && fr.Decl.Recv != nil && len(fr.Decl.Recv.List) == 1 && len(fr.Decl.Recv.List[0].Names) == 1 {
		if fr.Info().Defs[fr.Decl.Recv.List[0].Names[0]] == types.Object(v) {
			if sel, ok := unparen(fr.Call.Fun).(*ast.SelectorExpr); ok {
				if id, ok := unparen(sel.X).(*ast.Ident); ok {
					if _, isVar := fr.Parent.Info().Uses[id].(*types.Var); isVar {
						return id, fr.Parent, true
					}
				}
			}
			return nil, nil, false
		}
	}
	i := 0
	for _, f := range ft.Params.List {
		for _, n := range f.Names {
			if fr.Info().Defs[n] == types.Object(v) {
				if i >= len(fr.Call.Args) {
					return nil, nil, false
				}
				if _, variadic := f.Type.(*ast.Ellipsis); variadic {
					return nil, nil, false
				}
				arg := unparen(fr.Call.Args[i])
				_, isIdent := arg.(*ast.Ident)
				tv, hasTV := fr.Parent.Info().Types[arg]
				// a plain variable, a constant, or a side-effect-free expression (l.head, pre != 0): the
				// helper's parameter stands for it — the callee is walked in place right after the
				// argument was evaluated, and writes to what the expression reads drop the
				// definitions built from it like anywhere else
				if !isIdent && !(hasTV && tv.Value != nil) && !isPureOrLoad(arg, fr.Parent) {
					return nil, nil, false
				}
				// not reassigned in the callee
				assigned := false
				if body := fr.Body(); body != nil {
					ast.Inspect(body, func(n ast.Node) bool {
						switch a := n.(type) {
						case *ast.AssignStmt:
							for _, l := range a.Lhs {
								if id, ok := unparen(l).(*ast.Ident); ok && fr.Info().Uses[id] == types.Object(v) {
									assigned = true
								}
							}
						case *ast.IncDecStmt:
							if id, ok := unparen(a.X).(*ast.Ident); ok && fr.Info().Uses[id] == types.Object(v) {
								assigned = true
							}
						}
						return !assigned
					})
				}
				if assigned {
					return nil, nil, false
				}
				return arg, fr.Parent, true
			}
			i++
		}
		if len(f.Names) == 0 {
			i++
		}
	}
	return nil, nil, false
}

// varTerm / varFormula name a variable as the atoms built at an event in frame fr name it (a
// parameter of an inlined function stands for the caller's argument).
func (b *gbuilder) varTerm(v *types.Var, fr *core.Frame) string {
	if v == nil {
		return "?var"
	}
	if arg, afr, ok := paramArg(v, fr); ok {
		if t, ok := b.term(arg, afr); ok {
			return t
		}
	}
	return b.c.Role(v)
}

func (b *gbuilder) varFormula(v *types.Var, fr *core.Frame) *formula {
	if v == nil {
		return atom("F(?var)")
	}
	if arg, afr, ok := paramArg(v, fr); ok {
		return b.build(arg, afr)
	}
	return atom("F(" + b.c.Role(v) + ")")
}

func (g *gpath) builderAt(i int) *gbuilder {
	return &gbuilder{c: g.c, defs: g.defs[i], sec: g.sec[i], g: g}
}

// ---------------------------------------------------------------------------------------------
// structural discovery: helpers are found by what they do, not by what they are called, so that
// renaming, extracting or merging unexported helpers leaves the rows in place

// callbackRef is a function handed to time.AfterFunc: a literal or a method value.
type callbackRef struct {
	lit   *ast.FuncLit
	decl  *core.FuncDecl // method value / declared function
	outer *core.FuncDecl // the function containing the AfterFunc call
	k     int            // rank among the timer callbacks of outer
}

func (cb callbackRef) name() string {
	if cb.decl != nil {
		return core.FuncName(cb.decl.Obj)
	}
	return sprintf("%s.timer#%d", core.FuncName(cb.outer.Obj), cb.k)
}

func (cb callbackRef) entry() core.Entry {
	if cb.decl != nil {
		return core.Entry{Decl: cb.decl, Name: cb.name()}
	}
	return core.Entry{Lit: cb.lit, Pkg: cb.outer.Pkg, Outer: cb.outer, Name: cb.name()}
}

func (cb callbackRef) body() (ast.Node, *types.Info) {
	if cb.decl != nil {
		return cb.decl.Decl.Body, cb.decl.Pkg.TypesInfo
	}
	return cb.lit.Body, cb.outer.Pkg.TypesInfo
}

// pkgDecls lists the declared functions of a package (relative path) in source order.
func pkgDecls(c *Ctx, pkg string) []*core.FuncDecl {
	var out []*core.FuncDecl
	for _, d := range c.Prog.Funcs {
		if RelPkg(d.Pkg.PkgPath) == pkg && d.Decl.Body != nil {
			out = append(out, d)
		}
	}
	sort.Slice(out, func(i, j int) bool { return out[i].Decl.Pos() < out[j].Decl.Pos() })
	return out
}

// pkgTimerCallbacks lists every function handed to time.AfterFunc in a package.
func pkgTimerCallbacks(c *Ctx, pkg string) []callbackRef {
	var out []callbackRef
	for _, d := range pkgDecls(c, pkg) {
		d := d
		ei := core.EscapesOf(c.Prog, d)
		k := 0
		ast.Inspect(d.Decl.Body, func(n ast.Node) bool {
			call, ok := n.(*ast.CallExpr)
			if !ok || len(call.Args) != 2 {
				return true
			}
			f, _ := typeutil.Callee(d.Pkg.TypesInfo, call).(*types.Func)
			if f == nil || f.Pkg() == nil || f.Pkg().Path() != "time" || f.Name() != "AfterFunc" {
				return true
			}
			switch a := unparen(call.Args[1]).(type) {
			case *ast.FuncLit:
				k++
				out = append(out, callbackRef{lit: a, outer: d, k: k})
			case *ast.Ident:
				for _, l := range ei.Bound[d.Pkg.TypesInfo.Uses[a]] {
					k++
					out = append(out, callbackRef{lit: l, outer: d, k: k})
				}
			case *ast.SelectorExpr:
				if sel, ok := d.Pkg.TypesInfo.Selections[a]; ok && sel.Kind() == types.MethodVal {
					if md := c.Prog.Decl(sel.Obj().(*types.Func).Origin()); md != nil {
						k++
						out = append(out, callbackRef{decl: md, outer: d, k: k})
					}
				}
			}
			return true
		})
	}
	return out
}

// bodyCalls: the body contains (also inside nested literals, and through same-package callees, two
// levels deep) a resolved call of fn.
func bodyCalls(c *Ctx, body ast.Node, info *types.Info, fn *types.Func, depth int) bool {
	found := false
	ast.Inspect(body, func(n ast.Node) bool {
		call, ok := n.(*ast.CallExpr)
		if !ok || found {
			return !found
		}
		f, _ := typeutil.Callee(info, call).(*types.Func)
		if f == nil {
			return true
		}
		f = f.Origin()
		if f == fn {
			found = true
			return false
		}
		if depth > 0 && f.Pkg() != nil && fn.Pkg() != nil && f.Pkg() == fn.Pkg() {
			if d := c.Prog.Decl(f); d != nil && bodyCalls(c, d.Decl.Body, d.Pkg.TypesInfo, fn, depth-1) {
				found = true
			}
		}
		return !found
	})
	return found
}

// declsWhere lists the declared functions of a package whose body (outside nested literals or not, as
// asked) satisfies pred on some node.
func declsWhere(c *Ctx, pkg string, pred func(d *core.FuncDecl, n ast.Node) bool) []*core.FuncDecl {
	var out []*core.FuncDecl
	for _, d := range pkgDecls(c, pkg) {
		d := d
		hit := false
		ast.Inspect(d.Decl.Body, func(n ast.Node) bool {
			if n != nil && !hit && pred(d, n) {
				hit = true
			}
			return !hit
		})
		if hit {
			out = append(out, d)
		}
	}
	return out
}

// assignsFieldNode: the node is an assignment (or ++/--) whose target is the field (Type.field name).
func assignsFieldNode(d *core.FuncDecl, n ast.Node, field string) (ast.Expr, bool) {
	fr := &core.Frame{Pkg: d.Pkg}
	switch s := n.(type) {
	case *ast.AssignStmt:
		for i, l := range s.Lhs {
			if fv := fieldVar(l, fr); fv != nil && core.FieldName(fv) == field {
				if len(s.Rhs) == len(s.Lhs) {
					return s.Rhs[i], true
				}
				return nil, true
			}
		}
	case *ast.IncDecStmt:
		if fv := fieldVar(s.X, fr); fv != nil && core.FieldName(fv) == field {
			return nil, true
		}
	}
	return nil, false
}

// pkgAssignedFromCall: the first local of the package assigned (at result index idx) from a call that
// satisfies pred.
func pkgAssignedFromCall(c *Ctx, pkg string, idx int, pred func(call *ast.CallExpr) bool) *types.Var {
	for _, d := range pkgDecls(c, pkg) {
		if v := assignedFromCall(d, d.Decl, idx, pred); v != nil {
			return v
		}
	}
	return nil
}

// bodyOrCalleesMatch: pred holds on some node of the function's body or of a same-package function it
// calls (depth levels deep).
func bodyOrCalleesMatch(c *Ctx, d *core.FuncDecl, pred func(d *core.FuncDecl, n ast.Node) bool, depth int) bool {
	hit := false
	ast.Inspect(d.Decl.Body, func(n ast.Node) bool {
		if n == nil || hit {
			return !hit
		}
		if pred(d, n) {
			hit = true
			return false
		}
		if call, ok := n.(*ast.CallExpr); ok && depth > 0 {
			if f, _ := typeutil.Callee(d.Pkg.TypesInfo, call).(*types.Func); f != nil && f.Pkg() == d.Obj.Pkg() {
				if cd := c.Prog.Decl(f.Origin()); cd != nil && cd != d && bodyOrCalleesMatch(c, cd, pred, depth-1) {
					hit = true
				}
			}
		}
		return !hit
	})
	return hit
}

// fieldByRole names a field of an unexported implementation struct by its role — the k-th field
// (declaration order, 1-based) whose type satisfies pred — so that renaming the field changes nothing.
func fieldByRole(c *Ctx, pkg, typ string, pred func(types.Type) bool, k int, what string) string {
	if p := c.Prog.Pkg(pkg); p != nil {
		if o := p.Types.Scope().Lookup(typ); o != nil {
			if st, ok := o.Type().Underlying().(*types.Struct); ok {
				n := 0
				for i := 0; i < st.NumFields(); i++ {
					if pred(st.Field(i).Type()) {
						n++
						if n == k {
							return core.FieldName(st.Field(i))
						}
					}
				}
			}
		}
	}
	c.MissingAnchor("R12", sprintf("%s.%s: %s", pkg, typ, what))
	return "?" + what
}

func isIntType(t types.Type) bool { return isBasic(t, types.IsInteger) }

// structFieldOrigin: the origin (generic declaration) of the i-th field of a possibly instantiated
// struct type.
func structFieldOrigin(t types.Type, i int) *types.Var {
	if n, ok := t.(*types.Named); ok {
		if st, ok := n.Origin().Underlying().(*types.Struct); ok && i < st.NumFields() {
			return st.Field(i)
		}
	}
	if st, ok := t.Underlying().(*types.Struct); ok && i < st.NumFields() {
		return st.Field(i).Origin()
	}
	return nil
}

// callsFieldAt: event i is a dynamic call of the func-typed field — directly, or through a local that
// was assigned the field's value in the same section (if cancel := r.cancel; cancel != nil { cancel() }).
func (g *gpath) callsFieldAt(i int, field string) bool {
	ev := g.p.Events[i]
	if callsField(ev, field) {
		return true
	}
	if (ev.Kind != core.KCall && ev.Kind != core.KDefer) || ev.Builtin != "" || ev.Callee != nil || ev.Call == nil {
		return false
	}
	v := identVar(ev.Call.Fun, ev.Frame)
	if v == nil || v.IsField() {
		return false
	}
	t, ok := g.builderAt(i).term(ev.Call.Fun, ev.Frame)
	return ok && t == field
}

// capturedFieldAlias: v is a local of a declared function that is assigned exactly once in it, from a
// pure chain of field selections rooted at the receiver or a parameter, never incremented or
// address-taken, and captured by a literal of that function.
func capturedFieldAlias(c *Ctx, v *types.Var) (ast.Expr, *core.Frame, bool) {
	if v == nil || v.IsField() {
		return nil, nil, false
	}
	key := "capAlias"
	if c.cache[key] == nil {
		c.cache[key] = map[*types.Var]ast.Expr{}
	}
	memo := c.cache[key].(map[*types.Var]ast.Expr)
	d := c.Prog.EnclosingDecl(v.Pos())
	if d == nil || d.Decl.Body == nil {
		return nil, nil, false
	}
	if e, seen := memo[v]; seen {
		return e, &core.Frame{Pkg: d.Pkg}, e != nil
	}
	memo[v] = nil
	info := d.Pkg.TypesInfo
	captured := false
	for _, vs := range core.EscapesOf(c.Prog, d).Captured {
		for _, cv := range vs {
			if cv == v {
				captured = true
			}
		}
	}
	if !captured {
		return nil, nil, false
	}
	var rhs ast.Expr
	n, bad := 0, false
	ast.Inspect(d.Decl.Body, func(x ast.Node) bool {
		switch s := x.(type) {
		case *ast.AssignStmt:
			for i, l := range s.Lhs {
				if id, ok := l.(*ast.Ident); ok && info.ObjectOf(id) == types.Object(v) {
					n++
					if len(s.Lhs) == len(s.Rhs) && (s.Tok == token.DEFINE || s.Tok == token.ASSIGN) {
						rhs = s.Rhs[i]
					} else {
						bad = true
					}
				}
			}
		case *ast.IncDecStmt:
			if id, ok := s.X.(*ast.Ident); ok && info.ObjectOf(id) == types.Object(v) {
				bad = true
			}
		case *ast.UnaryExpr:
			if s.Op == token.AND {
				if id, ok := unparen(s.X).(*ast.Ident); ok && info.ObjectOf(id) == types.Object(v) {
					bad = true
				}
			}
		case *ast.RangeStmt:
			for _, l := range []ast.Expr{s.Key, s.Value} {
				if id, ok := l.(*ast.Ident); ok && info.ObjectOf(id) == types.Object(v) {
					bad = true
				}
			}
		}
		return true
	})
	if bad || n != 1 || rhs == nil {
		return nil, nil, false
	}
	// a pure chain x.f.g rooted at an identifier
	e := unparen(rhs)
	depth := 0
	for {
		sel, ok := e.(*ast.SelectorExpr)
		if !ok {
			break
		}
		fv := fieldVar(sel, &core.Frame{Pkg: d.Pkg})
		if fv == nil || !fieldNeverReassigned(c, fv) {
			return nil, nil, false // a field that is written after construction: the captured copy can be stale
		}
		e = unparen(sel.X)
		depth++
	}
	if _, ok := e.(*ast.Ident); !ok || depth == 0 {
		return nil, nil, false
	}
	memo[v] = rhs
	return rhs, &core.Frame{Pkg: d.Pkg}, true
}

// fieldNeverReassigned: no function of the field's package assigns the field (x.f = …, x.f++, &x.f);
// it is only given a value in composite literals.
func fieldNeverReassigned(c *Ctx, fv *types.Var) bool {
	key := "fieldConst"
	if c.cache[key] == nil {
		c.cache[key] = map[*types.Var]bool{}
	}
	memo := c.cache[key].(map[*types.Var]bool)
	fv = fv.Origin()
	if r, ok := memo[fv]; ok {
		return r
	}
	res := true
	for _, d := range c.Prog.Funcs {
		if d.Decl.Body == nil || d.Pkg.Types != fv.Pkg() {
			continue
		}
		fr := &core.Frame{Pkg: d.Pkg}
		is := func(e ast.Expr) bool {
			x := fieldVar(e, fr)
			return x != nil && x.Origin() == fv
		}
		ast.Inspect(d.Decl.Body, func(n ast.Node) bool {
			switch s := n.(type) {
			case *ast.AssignStmt:
				for _, l := range s.Lhs {
					if is(l) {
						res = false
					}
				}
			case *ast.IncDecStmt:
				if is(s.X) {
					res = false
				}
			case *ast.UnaryExpr:
				if s.Op == token.AND && is(s.X) {
					res = false
				}
			}
			return res
		})
		if !res {
			break
		}
	}
	memo[fv] = res
	return res
}
