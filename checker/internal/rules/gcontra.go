package rules

import (
	"go/ast"
	"go/token"
	"go/types"
	"sort"

	"utilverif/internal/core"
)

func init() {
	register(&Rule{ID: "Gcontra", Text: gcontraText, Run: runGcontra})
}

const gcontraText = `R19/R20 contradiction rules (per declared function, callees not followed, section callbacks walked in place). R19: no branch on a struct field (x.f, !x.f, x.f == nil, x.f != nil) is decided the same way on every path that reaches it by a value the path itself stored just before (x.f = nil … if x.f != nil): one side of such a branch is dead, which in this library has always meant that a test was moved behind the reset it was meant to precede and the guarded effect is lost. R20: a pointer, function or interface value that the function tests against nil somewhere is not dereferenced (field selection, call of the function value, method call through the interface) at a point where — since its last assignment from the same source expression, and for guarded fields since the section began — no test has shown it non-nil: if one place believes the value can be nil and another uses it unconditionally, one of them is wrong.`

type contraSite struct {
	pos      token.Pos
	outcomes map[bool]bool
	allStore bool
	n        int
	witness  *core.Path
	text     string
}

func runGcontra(c *Ctx) {
	a := newAgg(c)
	defer a.flush()
	for _, d := range c.declsInScope() {
		d := d
		if d.Decl.Body == nil {
			continue
		}
		name := core.FuncName(d.Obj)
		sites := map[token.Pos]*contraSite{}
		// R20 bookkeeping: classes of (term, source expression)
		type cls struct {
			tested    bool
			unguarded map[token.Pos]*core.Path
			guarded   int
			term      string
		}
		classes := map[string]*cls{}
		getCls := func(k, term string) *cls {
			cl := classes[k]
			if cl == nil {
				cl = &cls{unguarded: map[token.Pos]*core.Path{}, term: term}
				classes[k] = cl
			}
			return cl
		}
		c.Walk("R19", &core.Config{Follow: func(*types.Func) bool { return false }, SharedFacts: true}, core.Entry{Decl: d}, func(p *core.Path) {
			g := prepare(c, p)
			// ---- R19
			for _, ev := range p.Events {
				if ev.Kind != core.KBranch || !testsField(ev.Cond, ev.Frame) {
					continue
				}
				st := sites[ev.Pos]
				if st == nil {
					st = &contraSite{pos: ev.Pos, outcomes: map[bool]bool{}, allStore: true, text: core.ExprString(ev.Cond)}
					sites[ev.Pos] = st
				}
				st.n++
				st.outcomes[ev.CondVal] = true
				if !ev.ForcedByStore() {
					st.allStore = false
				} else if st.witness == nil {
					st.witness = p
				}
			}
			// ---- R20
			fieldEpoch := 0
			fieldTerms := map[string]bool{}
			since := map[string]int{}     // term -> index of its last assignment
			source := map[string]string{} // term -> rendered source of its current value
			termOf := func(e ast.Expr, fr *core.Frame) (string, types.Type) {
				e = unparen(e)
				if v := identVar(e, fr); v != nil && !v.IsField() {
					if virtualField(v) != nil {
						return "", nil
					}
					return c.Role(v), v.Type()
				}
				if fv := fieldVar(e, fr); fv != nil {
					fieldTerms[core.FieldName(fv)] = true
					return core.FieldName(fv), fv.Type()
				}
				return "", nil
			}
			nilable := func(t types.Type) bool {
				switch t.Underlying().(type) {
				case *types.Pointer, *types.Signature, *types.Interface:
					return true
				}
				return false
			}
			classKey := func(term string) string { return term + " <- " + source[term] }
			seen := map[ast.Node]bool{}
			var scan func(i int, ev *core.Event, e ast.Expr)
			scan = func(i int, ev *core.Event, e ast.Expr) {
				if e == nil {
					return
				}
				// a nil comparison of the same term inside the same expression guards it (x != nil && x.f)
				inExprTests := map[string]bool{}
				ast.Inspect(e, func(n ast.Node) bool {
					if be, ok := n.(*ast.BinaryExpr); ok && (be.Op == token.EQL || be.Op == token.NEQ) {
						for _, pr := range [][2]ast.Expr{{be.X, be.Y}, {be.Y, be.X}} {
							if isNilExpr(pr[1], ev.Frame) {
								if t, _ := termOf(pr[0], ev.Frame); t != "" {
									inExprTests[t] = true
								}
							}
						}
					}
					return true
				})
				ast.Inspect(e, func(n ast.Node) bool {
					if _, isLit := n.(*ast.FuncLit); isLit {
						return false
					}
					var base ast.Expr
					switch x := n.(type) {
					case *ast.SelectorExpr:
						sel, ok := ev.Frame.Info().Selections[x]
						if !ok {
							return true
						}
						_, bt := termOf(x.X, ev.Frame)
						if bt == nil {
							return true
						}
						switch bt.Underlying().(type) {
						case *types.Pointer:
							if sel.Kind() != types.FieldVal {
								return true // a method on a nil pointer receiver is legal
							}
						case *types.Interface:
							if sel.Kind() != types.MethodVal {
								return true
							}
						default:
							return true
						}
						base = x.X
					case *ast.CallExpr:
						if _, bt := termOf(x.Fun, ev.Frame); bt != nil {
							if _, isSig := bt.Underlying().(*types.Signature); isSig {
								base = x.Fun
							}
						}
					case *ast.StarExpr:
						base = x.X
					}
					if base == nil || seen[n] {
						return true
					}
					t, ty := termOf(base, ev.Frame)
					if t == "" || ty == nil || !nilable(ty) {
						return true
					}
					seen[n] = true
					cl := getCls(classKey(t), t)
					ok := inExprTests[t]
					if !ok {
						var lits []*r2Lit
						from := since[t]
						if fieldTerms[t] && fieldEpoch > from {
							from = fieldEpoch
						}
						for j := from; j < i; j++ {
							if g.lits[j] != nil {
								lits = append(lits, g.lits[j])
							}
						}
						tt, _ := g.builderAt(i).term(base, ev.Frame)
						ok, _ = implies(lits, fnot(eq("nil", tt)))
					}
					if ok {
						cl.guarded++
					} else if _, has := cl.unguarded[n.Pos()]; !has {
						cl.unguarded[n.Pos()] = p
					}
					return true
				})
			}
			for i, ev := range p.Events {
				switch ev.Kind {
				case core.KAcquire, core.KRelease:
					// guarded fields can change between sections
					fieldEpoch = i
				case core.KBranch:
					scan(i, ev, ev.Cond)
					if be, ok := unparen(ev.Cond).(*ast.BinaryExpr); ok && (be.Op == token.EQL || be.Op == token.NEQ) {
						for _, pr := range [][2]ast.Expr{{be.X, be.Y}, {be.Y, be.X}} {
							if isNilExpr(pr[1], ev.Frame) {
								if t, ty := termOf(pr[0], ev.Frame); t != "" && ty != nil && nilable(ty) {
									getCls(classKey(t), t).tested = true
								}
							}
						}
					}
				case core.KAssign:
					if !ev.FieldInit {
						scan(i, ev, ev.Lhs)
					}
					if ev.RhsIdx < 0 {
						scan(i, ev, ev.Rhs)
					}
					if ev.FieldInit {
						break
					}
					if _, isIdx := unparen(ev.Lhs).(*ast.IndexExpr); isIdx {
						break
					}
					if t, ty := termOf(ev.Lhs, ev.Frame); t != "" && ty != nil && nilable(ty) {
						since[t] = i + 1
						src := "?"
						if ev.Rhs != nil {
							src = core.ExprString(ev.Rhs)
							if ev.RhsIdx >= 0 {
								src += sprintf("#%d", ev.RhsIdx)
							}
						}
						source[t] = src
						// a value that cannot be nil: never part of a contradiction
						if ev.Rhs != nil && ev.RhsIdx < 0 && nonNilSource(ev.Rhs, ev.Frame) {
							source[t] = "nonnil"
							getCls(classKey(t), t).guarded += 0
						}
					}
				case core.KCall, core.KEnter, core.KGo, core.KDefer:
					if ev.Call != nil {
						scan(i, ev, ev.Call)
					}
				case core.KReturn:
					for _, r := range ev.Results {
						scan(i, ev, r)
					}
				case core.KSend, core.KRecv:
					scan(i, ev, ev.Chan)
				}
			}
		})
		// ---- R19 verdicts
		var poss []token.Pos
		for pos := range sites {
			poss = append(poss, pos)
		}
		sort.Slice(poss, func(i, j int) bool { return poss[i] < poss[j] })
		for _, pos := range poss {
			st := sites[pos]
			dead := st.allStore && len(st.outcomes) == 1
			if !st.allStore && !dead {
				continue // an ordinary branch: nothing to record
			}
			out := "true"
			if st.outcomes[false] {
				out = "false"
			}
			a.note("R19", name+"/branch-decided-by-own-store", pos, dead,
				"a branch that is decided by a value its own path stored has both outcomes over the function's paths",
				"the condition "+st.text+" is "+out+" on every path that reaches it, because each of those paths assigned the tested variable just before: the other side is dead code (a test placed behind the reset it was meant to precede loses the effect it guards)", st.witness)
		}
		// ---- R20 verdicts
		var keys []string
		for k := range classes {
			keys = append(keys, k)
		}
		sort.Strings(keys)
		for _, k := range keys {
			cl := classes[k]
			if !cl.tested || source2(k) == "nonnil" {
				continue
			}
			if len(cl.unguarded) == 0 {
				if cl.guarded > 0 {
					a.note("R20", name+"/nil-tested-before-use("+cl.term+")", d.Decl.Pos(), false,
						"a value the function tests against nil is used only where a test has shown it non-nil", "", nil)
				}
				continue
			}
			var ps []token.Pos
			for pos := range cl.unguarded {
				ps = append(ps, pos)
			}
			sort.Slice(ps, func(i, j int) bool { return ps[i] < ps[j] })
			for _, pos := range ps {
				a.note("R20", name+"/nil-tested-before-use("+cl.term+")", pos, true, "",
					"the function tests "+cl.term+" (from "+source2(k)+") against nil at one place, but uses it here on a path that, since that value was obtained, has not shown it non-nil: when it is nil this dereference panics", cl.unguarded[pos])
			}
		}
	}
}

func source2(k string) string {
	for i := 0; i+4 <= len(k); i++ {
		if k[i:i+4] == " <- " {
			return k[i+4:]
		}
	}
	return ""
}

// nonNilSource: the expression cannot evaluate to nil.
func nonNilSource(e ast.Expr, fr *core.Frame) bool {
	switch x := unparen(e).(type) {
	case *ast.CompositeLit, *ast.FuncLit:
		return true
	case *ast.UnaryExpr:
		return x.Op == token.AND
	case *ast.CallExpr:
		if id, ok := unparen(x.Fun).(*ast.Ident); ok && (id.Name == "make" || id.Name == "new") {
			if _, isB := fr.Info().ObjectOf(id).(*types.Builtin); isB {
				return true
			}
		}
	}
	return false
}

// testsField: the condition is a struct field, its negation, or a comparison of a struct field with nil
// or a constant.
func testsField(e ast.Expr, fr *core.Frame) bool {
	e = unparen(e)
	if u, ok := e.(*ast.UnaryExpr); ok && u.Op == token.NOT {
		return testsField(u.X, fr)
	}
	if fieldVar(e, fr) != nil {
		return true
	}
	if be, ok := e.(*ast.BinaryExpr); ok && (be.Op == token.EQL || be.Op == token.NEQ) {
		for _, pr := range [][2]ast.Expr{{be.X, be.Y}, {be.Y, be.X}} {
			if fieldVar(pr[0], fr) == nil {
				continue
			}
			if isNilExpr(pr[1], fr) {
				return true
			}
			if tv, ok := fr.Info().Types[unparen(pr[1])]; ok && tv.Value != nil {
				return true
			}
		}
	}
	return false
}
