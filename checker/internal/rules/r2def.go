package rules

import (
	"go/ast"
	"go/token"
	"go/types"
	"strings"

	"golang.org/x/tools/go/types/typeutil"

	"utilverif/internal/core"
)

// R2d: the broadcast/getWaitCh parameters of a section callback do not escape.
func runR2d(c *Ctx, s *r2State) {
	for _, d := range c.declsInScope() {
		d := d
		info := d.Pkg.TypesInfo
		ei := core.EscapesOf(c.Prog, d)
		n := 0
		ast.Inspect(d.Decl, func(node ast.Node) bool {
			call, ok := node.(*ast.CallExpr)
			if !ok {
				return true
			}
			name, idx := core.IsHoldLockCall(info, call)
			if name == "" || idx >= len(call.Args) {
				return true
			}
			lit, ok := unparen(call.Args[idx]).(*ast.FuncLit)
			if !ok {
				if id, isId := unparen(call.Args[idx]).(*ast.Ident); isId {
					if ls := ei.Bound[info.Uses[id]]; len(ls) == 1 {
						lit, ok = ls[0], true
					}
				}
			}
			if !ok {
				// forwarding a callback parameter (Broadcast's own wrappers) is judged in the caller
				return true
			}
			n++
			// outside package broadcast every section is entered synchronously: the effect of
			// HoldLockMaybeAsync may happen after the caller returned
			if RelPkg(d.Pkg.PkgPath) != "broadcast" {
				s.note("R2d", sprintf("%s/section-callback#%d/entered-synchronously", core.FuncName(d.Obj), n), call.Pos(), name == "HoldLockMaybeAsync",
					"the critical section runs before the call that enters it returns (HoldLock / TryHoldLock / Wait)",
					"the section is entered with HoldLockMaybeAsync: when the lock is contended its body runs on another goroutine after the enclosing function returned, so the function's effect is not in place when it returns and two calls from one goroutine can take effect in either order", nil)
			}
			var params []types.Object
			for _, f := range lit.Type.Params.List {
				for _, nm := range f.Names {
					params = append(params, info.Defs[nm])
				}
			}
			bad := ""
			for pi, po := range params {
				if po == nil || pi > 1 {
					continue
				}
				if why := paramEscapes(c, d, info, lit.Body, po, ei, 0); why != "" {
					bad = po.Name() + " " + why
				}
			}
			construct := sprintf("%s/section-callback#%d", core.FuncName(d.Obj), n)
			s.note("R2d", construct, lit.Pos(), bad != "", "broadcast/getWaitCh are only called, or handed to a same-package helper that only calls them",
				"the section callback lets "+bad+": the function could be used outside the critical section it belongs to", nil)
			return true
		})
	}
}

// paramEscapes reports how the function-typed parameter po is used other than by calling it.
func paramEscapes(c *Ctx, d *core.FuncDecl, info *types.Info, body ast.Node, po types.Object, ei *core.EscapeInfo, depth int) string {
	if depth > 4 {
		return "is forwarded through more than 4 helpers"
	}
	why := ""
	var stack []ast.Node
	ast.Inspect(body, func(n ast.Node) bool {
		if n == nil {
			stack = stack[:len(stack)-1]
			return true
		}
		stack = append(stack, n)
		id, ok := n.(*ast.Ident)
		if !ok || info.Uses[id] != po {
			return true
		}
		// inside an escaping nested literal?
		for _, anc := range stack {
			if l, ok := anc.(*ast.FuncLit); ok && ei != nil && ei.Esc[l] != core.EscNone {
				why = "be captured by a closure that outlives the section (" + c.Prog.Pos(l.Pos()) + ")"
			}
		}
		parent := stack[len(stack)-2]
		switch p := parent.(type) {
		case *ast.CallExpr:
			if unparen(p.Fun) == ast.Expr(id) {
				return true // called
			}
			// argument of a call
			f, _ := typeutil.Callee(info, p).(*types.Func)
			cd := c.Prog.Decl(f)
			if cd == nil {
				// handed to a callback parameter of the enclosing function, called right here in the
				// section (Broadcast.Wait's predicate): the contract moves to that callback
				if fid, ok := unparen(p.Fun).(*ast.Ident); ok {
					if pvv, ok := info.Uses[fid].(*types.Var); ok {
						isParam := false
						for _, q := range paramVars(d) {
							if q == pvv {
								isParam = true
							}
						}
						if isParam {
							return true
						}
					}
				}
				why = "be passed to " + core.ExprString(p.Fun) + ", which is not a function of this module"
				return true
			}
			for ai, a := range p.Args {
				if unparen(a) != ast.Expr(id) {
					continue
				}
				pv := paramVars(cd)
				if ai >= len(pv) || pv[ai] == nil {
					why = "be passed on as a variadic/unnamed argument"
					continue
				}
				if w := paramEscapes(c, cd, cd.Pkg.TypesInfo, cd.Decl.Body, pv[ai], core.EscapesOf(c.Prog, cd), depth+1); w != "" {
					why = "be passed to " + core.FuncName(cd.Obj) + " where it may " + w
				}
			}
		default:
			why = "be stored, returned or otherwise used as a value at " + c.Prog.Pos(id.Pos())
		}
		return true
	})
	return strings.TrimSpace(why)
}

// R2e: generation hygiene inside Broadcast.
func runR2e(c *Ctx, s *r2State) {
	if !c.InScope("broadcast") {
		return
	}
	bm, gm := sectionMethods(c)
	if bm == nil || gm == nil {
		c.MissingAnchor("R2e", "the broadcast/getWaitCh method values handed to a section callback in package broadcast")
		return
	}
	runR2eBody(c, s, bm, gm)
}

// sectionMethods: the two method values handed to the section callback in package broadcast (wherever
// in the package that call lives): the implementations of broadcast() and getWaitCh().
func sectionMethods(c *Ctx) (bm, gm *types.Func) {
	for _, hd := range pkgDecls(c, "broadcast") {
		hd := hd
		ast.Inspect(hd.Decl.Body, func(n ast.Node) bool {
			call, ok := n.(*ast.CallExpr)
			if !ok || len(call.Args) != 2 || bm != nil {
				return true
			}
			if id, ok := unparen(call.Fun).(*ast.Ident); !ok || identVar(id, &core.Frame{Pkg: hd.Pkg}) == nil {
				return true
			}
			var ms [2]*types.Func
			for i, a := range call.Args {
				if sel, ok := unparen(a).(*ast.SelectorExpr); ok {
					if sl, ok := hd.Pkg.TypesInfo.Selections[sel]; ok && sl.Kind() == types.MethodVal {
						ms[i] = sl.Obj().(*types.Func).Origin()
					}
				}
			}
			if ms[0] != nil && ms[1] != nil {
				bm, gm = ms[0], ms[1]
			}
			return true
		})
	}
	return bm, gm
}

func runR2eBody(c *Ctx, s *r2State, bm, gm *types.Func) {
	// the wait channel is shared by every waiter that sampled since the last broadcast: anywhere in the
	// package it is forgotten (set to nil) only after it was closed on the same path, and replaced by a
	// new one only when there is none — otherwise waiters are left on a channel nobody will close
	const chField = "broadcast.Broadcast.ch"
	for _, d := range pkgDecls(c, "broadcast") {
		d := d
		writes := false
		ast.Inspect(d.Decl.Body, func(n ast.Node) bool {
			if _, ok := assignsFieldNode(d, n, chField); ok {
				writes = true
			}
			return true
		})
		if !writes {
			continue
		}
		c.Walk("R2e", &core.Config{}, core.Entry{Decl: d}, func(p *core.Path) {
			g := prepare(c, p)
			closed := false
			for i, ev := range p.Events {
				if ev.Kind == core.KClose {
					if t, ok := g.builderAt(i).term(ev.Chan, ev.Frame); ok && t == chField {
						closed = true
					}
				}
				if !assignsField(ev, chField, "") {
					continue
				}
				if ev.Rhs != nil && isNilExpr(ev.Rhs, ev.Frame) {
					s.note("R2e", enclosingName(c, ev)+"/forget-only-after-close", ev.Pos, !closed,
						"the wait channel is set to nil only after it was closed on the same path",
						"the shared wait channel is forgotten without having been closed: the waiters that hold it are never woken by a later broadcast", p)
				} else {
					okNil, _ := implies(g.litsBefore(i, false), eq("nil", chField))
					s.note("R2e", enclosingName(c, ev)+"/replace-only-when-none", ev.Pos, !(okNil || closed),
						"a new wait channel is installed only when there is none (or the old one was just closed)",
						"a new wait channel is installed over one that may exist and was not closed: the waiters that hold the old one are never woken", p)
					closed = false
				}
			}
		})
	}
	// every wrapper calls the callback with the mutex held
	for _, name := range []string{"HoldLock", "TryHoldLock", "HoldLockMaybeAsync"} {
		f := c.Prog.LookupFunc("broadcast", "Broadcast", name)
		if f == nil {
			c.MissingAnchor("R2e", "broadcast.(*Broadcast)."+name)
			continue
		}
		fd := c.Prog.Decl(f)
		pv := paramVars(fd)
		entries := []core.Entry{{Decl: fd}}
		for ei := 0; ei < len(entries); ei++ {
			e := entries[ei]
			c.Walk("R2e", &core.Config{Follow: func(f *types.Func) bool {
				return helperFollow("broadcast")(f) && f.Origin() != bm && f.Origin() != gm
			}}, e, func(p *core.Path) {
				for _, ev := range p.Events {
					if ev.Kind == core.KGo && ev.FunVal.Kind == core.VFuncLit && len(entries) < 8 {
						// the goroutine runs the literal with the constant arguments of the go statement
						binds := map[types.Object]core.Value{}
						i := 0
						for _, fl := range ev.FunVal.Lit.Type.Params.List {
							for _, n := range fl.Names {
								if i < len(ev.ArgVals) && ev.ArgVals[i].Kind == core.VBool {
									binds[fd.Pkg.TypesInfo.Defs[n]] = ev.ArgVals[i]
								}
								i++
							}
						}
						dup := false
						for _, x := range entries {
							if x.Lit == ev.FunVal.Lit {
								dup = true
							}
						}
						if !dup {
							entries = append(entries, core.Entry{Lit: ev.FunVal.Lit, Pkg: fd.Pkg, Outer: fd, Binds: binds, Name: core.FuncName(fd.Obj) + ".go"})
						}
					}
					if ev.Kind != core.KCall || ev.Callee != nil || ev.Builtin != "" {
						continue
					}
					if len(pv) == 0 || iv(ev.Call.Fun, ev.Frame) != pv[0] {
						continue
					}
					held := false
					for _, h := range ev.Locks {
						if core.LockKindOf(h.Var.Type()) == core.SyncMutex {
							held = true
						}
					}
					s.note("R2e", core.FuncName(fd.Obj)+"/callback-under-mutex", ev.Pos, !held, "the callback runs with the mutex held on every path",
						"the callback is invoked on a path on which the Broadcast mutex is not held", p)
					// the callback is client code and may panic: the mutex is released by a deferred Unlock
					deferred := false
					for _, b := range p.Events {
						if b.Kind == core.KDefer && b.Callee != nil && b.Callee.Name() == "Unlock" && b.Seq < ev.Seq {
							deferred = true
						}
					}
					s.note("R2e", core.FuncName(fd.Obj)+"/unlock-deferred", ev.Pos, !deferred, "the mutex is released by a deferred Unlock registered before the client callback runs",
						"the mutex is not released by a deferred Unlock: if the client callback panics (and the caller recovers) the Broadcast stays locked and every waiter blocks forever", p)
				}
			})
		}
	}
	// Wait hands its predicate the section's own broadcast and getWaitCh (a recorder that "coalesces"
	// broadcasts loses the ones made by a predicate that returns true or an error)
	if wf := c.Prog.LookupFunc("broadcast", "Broadcast", "Wait"); wf != nil {
		if wd := c.Prog.Decl(wf); wd != nil {
			var cbParam *types.Var
			for _, pvv := range paramVars(wd) {
				if pvv != nil {
					if _, ok := pvv.Type().Underlying().(*types.Signature); ok {
						cbParam = pvv
					}
				}
			}
			c.Walk("R2e", &core.Config{Follow: helperFollow("broadcast")}, core.Entry{Decl: wd}, func(p *core.Path) {
				for _, ev := range p.Events {
					if ev.Kind != core.KCall || ev.Callee != nil || ev.Builtin != "" || cbParam == nil || iv(ev.Call.Fun, ev.Frame) != cbParam {
						continue
					}
					ok := len(ev.ArgVals) == 2 && ev.ArgVals[0].Kind == core.VBroadcast && ev.ArgVals[1].Kind == core.VGetWaitCh
					// … or, with the lock taken by hand, the two methods HoldLock itself hands out
					if !ok && len(ev.ArgVals) == 2 && ev.ArgVals[0].Kind == core.VMethodVal && ev.ArgVals[1].Kind == core.VMethodVal &&
						ev.ArgVals[0].Fn == bm && ev.ArgVals[1].Fn == gm && len(ev.Locks) > 0 {
						ok = true
					}
					s.note("R2e", core.FuncName(wd.Obj)+"/predicate-gets-section-functions", ev.Pos, !ok,
						"Wait hands its predicate the broadcast and getWaitCh of the critical section it runs in",
						"Wait calls its predicate with something other than the section's own broadcast/getWaitCh: a broadcast the predicate issues can be lost, or its wait channel is not the one the next broadcast closes", p)
				}
			})
		}
	}
	// broadcast: close and forget
	const chT = "broadcast.Broadcast.ch"
	bd := c.Prog.Decl(bm)
	c.Walk("R2e", &core.Config{}, core.Entry{Decl: bd}, func(p *core.Path) {
		if p.End != core.EndReturn {
			return
		}
		g := prepare(c, p)
		closed, cleared := false, false
		for i, ev := range p.Events {
			switch ev.Kind {
			case core.KClose:
				// the field itself, or a local that holds its value (ch := c.ch; … close(ch))
				if t, ok := g.builderAt(i).term(ev.Chan, ev.Frame); ok && t == chT {
					closed = true
				}
			case core.KAssign:
				if assignsField(ev, chT, "nil") && closed {
					cleared = true
				}
			}
		}
		exists, _ := implies(g.litsBefore(len(p.Events), false), fnot(eq("nil", chT)))
		bad := exists && !(closed && cleared) || closed && !cleared
		s.note("R2e", core.FuncName(bd.Obj)+"/close-and-forget", bd.Decl.Pos(), bad, "when a wait channel exists it is closed and forgotten in the same section",
			"on a path on which a wait channel exists it is not both closed and set to nil before the section ends: waiters are not woken inside the section, or a later broadcast closes the channel twice", p)
	})
	// getWaitCh: returns a non-nil channel that is the field's value
	gd := c.Prog.Decl(gm)
	c.Walk("R2e", &core.Config{}, core.Entry{Decl: gd}, func(p *core.Path) {
		g := prepare(c, p)
		lastWrite := -1
		var written *types.Var // the local stored into the field last (c.ch = ch)
		writtenFresh := false
		made := map[*types.Var]bool{}
		for i, ev := range p.Events {
			switch ev.Kind {
			case core.KAssign:
				if ev.FieldInit {
					continue
				}
				if lv := identVar(ev.Lhs, ev.Frame); lv != nil && !lv.IsField() {
					made[lv] = ev.Rhs != nil && ev.RhsIdx < 0 && isMakeChan(ev.Rhs, ev.Frame.Info())
				}
				if assignsField(ev, chT, "") && ev.Rhs != nil {
					lastWrite = i
					written = identVar(ev.Rhs, ev.Frame)
					writtenFresh = isMakeChan(ev.Rhs, ev.Frame.Info()) || written != nil && made[written]
				}
			case core.KReturn:
				if ev.Frame.Parent != nil || len(ev.Results) != 1 {
					continue
				}
				res := ev.Results[0]
				rv := identVar(res, ev.Frame)
				t, okT := g.builderAt(i).term(res, ev.Frame)
				isField := okT && t == chT || rv != nil && rv == written && lastWrite >= 0
				nonNil := false
				if lastWrite >= 0 {
					nonNil = writtenFresh
				} else {
					nonNil, _ = implies(g.litsBefore(i, false), fnot(eq("nil", chT)))
				}
				s.note("R2e", core.FuncName(gd.Obj)+"/non-nil-channel", ev.Pos, !(isField && nonNil), "every return hands out the field's channel after a path that made it non-nil",
					"a path returns a channel that may be nil (a receive from it blocks forever) or is not the one the next broadcast closes", p)
			}
		}
	})
}

func init() {
	register(&Rule{ID: "R17", Text: r17Text, Run: runR17})
}

const r17Text = `R2f interruption sources: in a function that takes a context.Context, an error channel or a cancel channel, every blocking site in its own body (a select without default, a plain receive, a call that is handed the context) listens to each of those parameters (an arm on ctx.Done()/the channel, or the parameter passed on). R17 sentinel provenance: such a function returns context.Canceled / ctx.Err() only after, in the same loop iteration, a ctx.Done() arm, a cancel-channel arm, a closed error channel, or a ctx.Err() != nil test; it returns an error received from an error channel only under err != nil (a nil error is not a result).`

func runR17(c *Ctx) {
	if c.Scope == nil {
		c.Scope = map[string]bool{}
		for _, p := range []string{"broadcast", "ccontainer", "conc", "routine", "promise", "ccall", "refcount", "csync"} {
			c.Scope[p] = true
		}
	}
	s := &r2State{c: c, agg: map[string]*Obligation{}}
	s.cmpCanceled = comparedWithCanceled(c)
	s.cancelForms = map[string]map[string]token.Pos{}
	s.cancelDelegates = map[string]map[string]bool{}
	for _, d := range c.declsInScope() {
		pv := paramVars(d)
		var ctxP *types.Var
		var chans []*types.Var
		for _, p := range pv {
			if p == nil {
				continue
			}
			if isContextType(p.Type()) {
				ctxP = p
			} else if ch, ok := p.Type().Underlying().(*types.Chan); ok && ch.Dir() == types.RecvOnly {
				chans = append(chans, p)
			}
		}
		if ctxP == nil && len(chans) == 0 || !d.Obj.Exported() {
			continue
		}
		d := d
		c.Walk("R17", &core.Config{Follow: waitHelperFollow(d.Obj)}, core.Entry{Decl: d}, func(p *core.Path) { s.interruptPath(d, ctxP, chans, p) })
	}
	// the places of one function that report the end of its context agree on what they report: the
	// literal context.Canceled at one place and <ctx>.Err() at another differ for an expired deadline
	for _, name := range s.cancelOrder {
		forms := map[string]token.Pos{}
		for f, p := range s.cancelForms[name] {
			forms[f] = p
		}
		for callee := range s.cancelDelegates[name] {
			for f, p := range s.cancelForms[callee] {
				if _, has := forms[f]; !has {
					forms[f] = p
				}
			}
		}
		var pos token.Pos
		for _, p := range forms {
			if !pos.IsValid() || p > pos {
				pos = p
			}
		}
		s.note("R17", name+"/cancellation-returns-agree", pos, len(forms) > 1,
			"every place of the function that reports the end of its context reports it in the same form",
			"the function reports the end of its context as the literal context.Canceled at one place and as <ctx>.Err() at another: for a context whose deadline expires the two differ (context.DeadlineExceeded), so what the caller gets depends on where the expiry is noticed", nil)
	}
	for _, k := range s.order {
		c.Add(s.agg[k])
	}
}

// comparedWithCanceled lists the library functions whose returned error some library caller compares with
// the literal context.Canceled (v == context.Canceled / v != context.Canceled where v was assigned from
// a call of the function; a call through an interface counts for every same-named method of the library).
func comparedWithCanceled(c *Ctx) map[*types.Func]string {
	out := map[*types.Func]string{}
	byName := map[string][]*types.Func{}
	for _, d := range c.Prog.Funcs {
		if core.RecvNamed(d.Obj) != nil {
			byName[d.Obj.Name()] = append(byName[d.Obj.Name()], d.Obj)
		}
	}
	for _, d := range c.Prog.Funcs {
		if d.Decl.Body == nil {
			continue
		}
		info := d.Pkg.TypesInfo
		// locals assigned from calls
		from := map[*types.Var]*ast.CallExpr{}
		ast.Inspect(d.Decl.Body, func(n ast.Node) bool {
			as, ok := n.(*ast.AssignStmt)
			if !ok || len(as.Rhs) != 1 {
				return true
			}
			call, ok := unparen(as.Rhs[0]).(*ast.CallExpr)
			if !ok {
				return true
			}
			for _, l := range as.Lhs {
				if id, ok := l.(*ast.Ident); ok {
					if v, _ := info.ObjectOf(id).(*types.Var); v != nil {
						from[v] = call
					}
				}
			}
			return true
		})
		ast.Inspect(d.Decl.Body, func(n ast.Node) bool {
			be, ok := n.(*ast.BinaryExpr)
			if !ok || be.Op != token.EQL && be.Op != token.NEQ {
				return true
			}
			for _, pr := range [][2]ast.Expr{{be.X, be.Y}, {be.Y, be.X}} {
				if core.ExprString(unparen(pr[1])) != "context.Canceled" {
					continue
				}
				id, ok := unparen(pr[0]).(*ast.Ident)
				if !ok {
					continue
				}
				v, _ := info.ObjectOf(id).(*types.Var)
				call := from[v]
				if call == nil {
					continue
				}
				f, _ := typeutil.Callee(info, call).(*types.Func)
				if f == nil {
					continue
				}
				where := core.FuncName(d.Obj)
				if rv := f.Type().(*types.Signature).Recv(); rv != nil && types.IsInterface(rv.Type()) {
					for _, m := range byName[f.Name()] {
						out[m.Origin()] = where
					}
				} else {
					out[f.Origin()] = where
				}
			}
			return true
		})
	}
	return out
}

func isCtxDone(e ast.Expr, fr *core.Frame, ctxs map[*types.Var]bool) bool {
	// a local that holds <ctx>.Done() (ctxDone := ctx.Done())
	if v := iv(e, fr); v != nil && ctxs[doneMarker(v)] {
		return true
	}
	call, ok := unparen(e).(*ast.CallExpr)
	if !ok {
		return false
	}
	sel, ok := unparen(call.Fun).(*ast.SelectorExpr)
	if !ok || sel.Sel.Name != "Done" {
		return false
	}
	v := iv(sel.X, fr)
	return v != nil && ctxs[v]
}

func (s *r2State) interruptPath(d *core.FuncDecl, ctxP *types.Var, chans []*types.Var, p *core.Path) {
	c := s.c
	name := core.FuncName(d.Obj)
	ctxs := map[*types.Var]bool{}
	if ctxP != nil {
		ctxs[ctxP] = true
	}
	// evidence since the last loop boundary
	ctxEv, closedEv := false, false
	recvErr := map[*types.Var]bool{} // local holding an error received from an error channel
	errFrom := map[*types.Var]string{}  // local holding the error of a library function that was handed our context
	guarded := map[*types.Var]bool{} // … and tested != nil on this path
	cancelEv := false
	ctxArm := false      // the select arm taken last was the ctx.Done() arm
	cancelArm := false   // … was the arm on a cancel-channel parameter
	var cbErr *types.Var // error returned by a client callback parameter of this function
	cbErrIdx := -1       // … and the event that assigned it last
	pvs := paramVars(d)
	for i, ev := range p.Events {
		// err returned by a client callback parameter (possibly called inside a section literal)
		if ev.Kind == core.KAssign && ev.Rhs != nil && ev.RhsIdx >= 0 {
			if call, ok := unparen(ev.Rhs).(*ast.CallExpr); ok {
				if fv := iv(call.Fun, ev.Frame); fv != nil {
					for _, q := range pvs {
						if q == fv {
							if lv := iv(ev.Lhs, ev.Frame); lv != nil && isErrorType(lv.Type()) {
								cbErr, cbErrIdx = lv, i
							}
						}
					}
				}
			}
		}
		if !ownBody(ev.Frame) {
			continue // own body (and the unexported helpers walked in place) only
		}
		switch ev.Kind {
		case core.KLoop:
			ctxEv, closedEv, cancelEv = false, false, false
			ctxArm, cancelArm = false, false
		case core.KAssign:
			// err returned by a client callback parameter: done, err = cb(…)
			if ev.Rhs != nil && ev.RhsIdx >= 0 {
				if call, ok := unparen(ev.Rhs).(*ast.CallExpr); ok {
					if fv := iv(call.Fun, ev.Frame); fv != nil {
						for _, q := range pvs {
							if q == fv {
								if lv := iv(ev.Lhs, ev.Frame); lv != nil && isErrorType(lv.Type()) {
									cbErr, cbErrIdx = lv, i
								}
							}
						}
					}
				}
			}
			// derived contexts: x, cancel := context.WithCancel(ctx)
			if ev.Rhs != nil {
				if call, ok := unparen(ev.Rhs).(*ast.CallExpr); ok && ev.RhsIdx <= 0 {
					if f, _ := typeutil.Callee(ev.Frame.Info(), call).(*types.Func); f != nil && f.Pkg() != nil && f.Pkg().Path() == "context" && len(call.Args) > 0 {
						if pv := iv(call.Args[0], ev.Frame); pv != nil && ctxs[pv] {
							if lv := iv(ev.Lhs, ev.Frame); lv != nil {
								ctxs[lv] = true
							}
						}
					}
				}
			}
			// ctxDone := ctx.Done()
			if ev.Rhs != nil && ev.RhsIdx < 0 && isCtxDone(ev.Rhs, ev.Frame, ctxs) {
				if lv := iv(ev.Lhs, ev.Frame); lv != nil {
					ctxs[doneMarker(lv)] = true
				}
			}
			// err, ok := <-errCh
			if u, ok := unparen(ev.Rhs).(*ast.UnaryExpr); ok && u.Op == token.ARROW {
				if chv := iv(u.X, ev.Frame); chv != nil {
					for _, cp := range chans {
						if cp == chv && ev.RhsIdx <= 0 {
							if lv := iv(ev.Lhs, ev.Frame); lv != nil {
								recvErr[lv] = true
								guarded[lv] = false
							}
						}
					}
				}
			}
		case core.KBranch:
			// ctx.Err() != nil
			if b, ok := unparen(ev.Cond).(*ast.BinaryExpr); ok && (b.Op == token.NEQ || b.Op == token.EQL) {
				for _, side := range [][2]ast.Expr{{b.X, b.Y}, {b.Y, b.X}} {
					if call, ok := unparen(side[0]).(*ast.CallExpr); ok && isNilExpr(side[1], ev.Frame) {
						if sel, ok := unparen(call.Fun).(*ast.SelectorExpr); ok && sel.Sel.Name == "Err" {
							if v := iv(sel.X, ev.Frame); v != nil && ctxs[v] && ev.CondVal == (b.Op == token.NEQ) {
								ctxEv = true
							}
						}
					}
					if lv := iv(side[0], ev.Frame); lv != nil && isNilExpr(side[1], ev.Frame) {
						if recvErr[lv] && ev.CondVal == (b.Op == token.NEQ) {
							guarded[lv] = true
						}
						// err := ctx.Err(); err != nil
						if ev.CondVal == (b.Op == token.NEQ) {
							for j := i - 1; j >= 0; j-- {
								a := p.Events[j]
								if a.Kind == core.KAssign && iv(a.Lhs, a.Frame) == lv {
									if call, ok := unparen(a.Rhs).(*ast.CallExpr); ok {
										if sel, ok := unparen(call.Fun).(*ast.SelectorExpr); ok && sel.Sel.Name == "Err" {
											if v := iv(sel.X, a.Frame); v != nil && ctxs[v] {
												ctxEv = true
											}
										}
									}
									break
								}
							}
						}
					}
				}
			} else if u, ok := unparen(ev.Cond).(*ast.Ident); ok {
				// !ok of a two-value receive: the channel was closed
				if !ev.CondVal {
					for j := i - 1; j >= 0 && j > i-6; j-- {
						a := p.Events[j]
						if a.Kind == core.KAssign && a.RhsIdx == 1 && iv(a.Lhs, a.Frame) == iv(u, ev.Frame) {
							closedEv = true
						}
					}
				}
			}
		case core.KRecv:
			if isCtxDone(ev.Chan, ev.Frame, ctxs) {
				ctxEv = true
				if ev.InSelect {
					ctxArm = true
				}
			} else if ev.InSelect {
				ctxArm = false
			}
			if ev.InSelect {
				cancelArm = false
				if chv := iv(ev.Chan, ev.Frame); chv != nil {
					for _, cp := range chans {
						if ch, ok := cp.Type().Underlying().(*types.Chan); ok && cp == chv {
							if st, ok := ch.Elem().Underlying().(*types.Struct); ok && st.NumFields() == 0 {
								cancelArm = true
							}
						}
					}
				}
			}
			if chv := iv(ev.Chan, ev.Frame); chv != nil {
				for _, cp := range chans {
					if cp == chv {
						if ch, ok := cp.Type().Underlying().(*types.Chan); ok {
							if st, ok := ch.Elem().Underlying().(*types.Struct); ok && st.NumFields() == 0 {
								cancelEv = true
							}
						}
					}
				}
			}
			if !ev.InSelect {
				s.blockingSite(name, ev, nil, ctxP, ctxs, chans, p)
			}
		case core.KSelect:
			if sel, ok := ev.Node.(*ast.SelectStmt); ok && !ev.HasDefault {
				s.blockingSite(name, ev, sel, ctxP, ctxs, chans, p)
			}
		case core.KCall:
			if ev.Builtin != "" {
				continue
			}
			// a call that is handed a context of ours may block
			passes := false
			for _, a := range ev.Call.Args {
				if v := iv(a, ev.Frame); v != nil && ctxs[v] {
					passes = true
				}
			}
			if passes && ev.Callee != nil && ev.Callee.Pkg() != nil && ev.Callee.Pkg().Path() != "context" {
				s.blockingSite(name, ev, nil, ctxP, ctxs, chans, p)
			}
		case core.KPanic:
			// (placeholder so that the delegation bookkeeping below stays next to its use)
		}
		switch ev.Kind {
		case core.KAssign:
			// an error taken from a library function that was handed our context: what that function
			// reports for the end of the context is what we report when we return it
			if ev.Frame.Parent == nil && ev.Rhs != nil && ctxP != nil {
				if call, ok := unparen(ev.Rhs).(*ast.CallExpr); ok {
					if f, _ := typeutil.Callee(ev.Frame.Info(), call).(*types.Func); f != nil && core.InModule(f) {
						hands := false
						for _, a := range call.Args {
							if iv(a, ev.Frame) == ctxP {
								hands = true
							}
						}
						if lv := iv(ev.Lhs, ev.Frame); lv != nil && hands && isErrorType(lv.Type()) {
							errFrom[lv] = core.FuncName(f.Origin())
						}
					}
				}
			}
		case core.KReturn:
			if ev.Frame.Parent == nil {
				for _, r := range ev.Results {
					if lv := iv(r, ev.Frame); lv != nil && errFrom[lv] != "" {
						if s.cancelDelegates[name] == nil {
							s.cancelDelegates[name] = map[string]bool{}
						}
						s.cancelDelegates[name][errFrom[lv]] = true
					}
				}
			}
			// results assigned to named results / temporaries before the return read as if returned directly
			if rs := returnExprsC(c, p, i); len(rs) > 0 {
				ev2 := *ev
				ev2.Results = rs
				ev = &ev2
			}
			// the arm on a cancel channel of promise.(*Promise).AwaitWithCancelCh reports context.Canceled:
			// PromiseContainer's await loops pass their replacement channel there and read Canceled as "replaced"
			if cancelArm && len(ev.Results) > 0 && core.RecvNamed(d.Obj) != nil && core.RecvNamed(d.Obj).Obj().Name() == "Promise" {
				last := core.ExprString(ev.Results[len(ev.Results)-1])
				s.note("R17", name+"/cancel-arm-returns-canceled", ev.Pos, last != "context.Canceled",
					"the cancel-channel arm returns context.Canceled",
					"the cancel-channel arm returns "+last+" instead of context.Canceled: PromiseContainer's await loops, which pass the replacement channel as cancel channel, take the return for a result of the promise", p)
			}
			// nil success only when the client callback's own error is nil
			if cbErr != nil && len(ev.Results) > 0 {
				last := ev.Results[len(ev.Results)-1]
				var rt types.Type
				if sig, ok := d.Obj.Type().(*types.Signature); ok && sig.Results().Len() == len(ev.Results) {
					rt = sig.Results().At(len(ev.Results) - 1).Type()
				}
				if rt != nil && isErrorType(rt) && isNilExpr(last, ev.Frame) {
					g := prepare(c, p)
					ok, _ := implies(g.litsBefore(i, false), eq("nil", c.Role(cbErr)))
					s.note("R17", name+"/nil-only-without-callback-error", ev.Pos, !ok,
						"nil is returned only when the client callback's error is known to be nil",
						"nil is returned on a path that has not excluded a non-nil error from the client callback: the callback's error is dropped", p)
				} else if rt != nil && isErrorType(rt) && iv(last, ev.Frame) != cbErr {
					// any other error (context.Canceled …) replaces the callback's verdict only when the
					// callback's error — as assigned last — is known to be nil
					g := prepare(c, p)
					var since []*r2Lit
					for j := cbErrIdx + 1; j < i; j++ {
						if g.lits[j] != nil {
							since = append(since, g.lits[j])
						}
					}
					ok, _ := implies(since, eq("nil", c.Role(cbErr)))
					s.note("R17", name+"/callback-error-returned-unchanged", ev.Pos, !ok,
						"an error other than the client callback's is returned only when the callback's error (as assigned last) is known to be nil",
						"the function returns "+core.ExprString(last)+" on a path on which the client callback has just reported an error that was not examined: the callback's error is replaced", p)
				}
			}
			if ctxArm && len(ev.Results) > 0 {
				last := ev.Results[len(ev.Results)-1]
				var rt types.Type
				if sig, ok := d.Obj.Type().(*types.Signature); ok && sig.Results().Len() == len(ev.Results) {
					rt = sig.Results().At(len(ev.Results) - 1).Type()
				}
				if rt != nil && isErrorType(rt) {
					s.note("R17", name+"/ctx-arm-returns-error", ev.Pos, isNilExpr(last, ev.Frame),
						"a return from the ctx.Done() arm carries an error",
						"the function returns a nil error from its ctx.Done() arm: a cancelled wait is reported as success", p)
					// … and it is the sentinel the package's waiters are documented to return: the literal
					// context.Canceled, or <ctx>.Err() of a context (both forms occur in the library;
					// anything else — context.Cause(ctx), a wrapped error — breaks callers that compare)
					lastS := core.ExprString(unparen(last))
					okSentinel := lastS == "context.Canceled"
					if call, isCall := unparen(last).(*ast.CallExpr); isCall && len(call.Args) == 0 {
						if sel, isSel := unparen(call.Fun).(*ast.SelectorExpr); isSel && sel.Sel.Name == "Err" {
							if t := ev.Frame.Info().TypeOf(sel.X); t != nil && isContextType(t) {
								okSentinel = true
							}
						}
					}
					if v := iv(last, ev.Frame); v != nil && !isNilExpr(last, ev.Frame) {
						okSentinel = true // a variable: its provenance is judged by the sentinel-provenance rule
					}
					// return helper(…): the helper was walked in place and its own return was judged
					if call, isCall := unparen(last).(*ast.CallExpr); isCall {
						if f, _ := typeutil.Callee(ev.Frame.Info(), call).(*types.Func); f != nil && f.Pkg() == d.Obj.Pkg() {
							okSentinel = true
						}
					}
					if where, cmp := s.cmpCanceled[d.Obj.Origin()]; cmp && ev.Frame.Depth == 0 {
						if call, isCall := unparen(last).(*ast.CallExpr); isCall && len(call.Args) == 0 {
							if sel, isSel := unparen(call.Fun).(*ast.SelectorExpr); isSel && sel.Sel.Name == "Err" {
								s.note("R17", name+"/ctx-arm-returns-canceled-literal", ev.Pos, true,
									"a waiter whose error library callers compare with context.Canceled returns that literal from its ctx.Done() arm",
									"the ctx.Done() arm returns "+lastS+", which is context.DeadlineExceeded for an expired deadline, but "+where+" recognises a cancelled wait by comparing with context.Canceled", p)
							}
						} else if lastS == "context.Canceled" {
							s.note("R17", name+"/ctx-arm-returns-canceled-literal", ev.Pos, false,
								"a waiter whose error library callers compare with context.Canceled returns that literal from its ctx.Done() arm", "", p)
						}
					}
					if !isNilExpr(last, ev.Frame) {
						s.note("R17", name+"/ctx-arm-returns-sentinel", ev.Pos, !okSentinel,
							"the ctx.Done() arm returns context.Canceled (or the context's Err())",
							"the ctx.Done() arm returns "+lastS+" instead of context.Canceled / ctx.Err(): callers that compare the error with context.Canceled no longer recognise a cancelled wait", p)
					}
				}
			}
			for _, r := range ev.Results {
				isCanceled := false
				if sel, ok := unparen(r).(*ast.SelectorExpr); ok && sel.Sel.Name == "Canceled" {
					if id, ok := unparen(sel.X).(*ast.Ident); ok && id.Name == "context" {
						isCanceled = true
					}
				}
				if call, ok := unparen(r).(*ast.CallExpr); ok {
					if sel, ok := unparen(call.Fun).(*ast.SelectorExpr); ok && sel.Sel.Name == "Err" {
						if v := iv(sel.X, ev.Frame); v != nil && ctxs[v] {
							isCanceled = true
						}
					}
				}
				if isCanceled && ev.Frame.Parent == nil && ctxEv && !closedEv && !cancelEv {
					form := "the literal context.Canceled"
					if _, isCall := unparen(r).(*ast.CallExpr); isCall {
						form = "<ctx>.Err()"
					}
					if s.cancelForms[name] == nil {
						s.cancelForms[name] = map[string]token.Pos{}
						s.cancelOrder = append(s.cancelOrder, name)
					}
					if _, has := s.cancelForms[name][form]; !has {
						s.cancelForms[name][form] = ev.Pos
					}
				}
				if isCanceled {
					bad := !(ctxEv || closedEv || cancelEv)
					s.note("R17", name+"/return-canceled"+c.ordinal(ev.Node), ev.Pos, bad,
						"context.Canceled is returned only after a ctx.Done()/cancel-channel arm, a closed error channel or a ctx.Err() != nil test",
						"context.Canceled (or ctx.Err()) is returned on a path on which, in this loop iteration, no cancellation source fired", p)
				}
				if lv := iv(r, ev.Frame); lv != nil && recvErr[lv] {
					bad := !guarded[lv]
					s.note("R17", name+"/return-received-error", ev.Pos, bad,
						"an error received from the error channel is returned only under err != nil",
						"the value received from the error channel is returned without an err != nil test: a nil error sent on the channel makes the function return nil as if its wait condition had been satisfied", p)
				}
			}
		}
	}
}

// blockingSite checks R2f at one blocking site.
func (s *r2State) blockingSite(name string, ev *core.Event, sel *ast.SelectStmt, ctxP *types.Var, ctxs map[*types.Var]bool, chans []*types.Var, p *core.Path) {
	c := s.c
	has := map[*types.Var]bool{}
	hasCtx := false
	if sel != nil {
		for _, cl := range sel.Body.List {
			cc := cl.(*ast.CommClause)
			var x ast.Expr
			switch comm := cc.Comm.(type) {
			case *ast.ExprStmt:
				x = comm.X
			case *ast.AssignStmt:
				x = comm.Rhs[0]
			}
			if u, ok := unparen(x).(*ast.UnaryExpr); ok && u.Op == token.ARROW {
				if isCtxDone(u.X, ev.Frame, ctxs) {
					hasCtx = true
				}
				if v := iv(u.X, ev.Frame); v != nil {
					has[v] = true
				}
			}
		}
	} else if ev.Kind == core.KCall {
		for _, a := range ev.Call.Args {
			if v := iv(a, ev.Frame); v != nil {
				has[v] = true
				if ctxs[v] {
					hasCtx = true
				}
			}
		}
	} else if ev.Kind == core.KRecv {
		if isCtxDone(ev.Chan, ev.Frame, ctxs) {
			hasCtx = true
		}
		if v := iv(ev.Chan, ev.Frame); v != nil {
			has[v] = true
		}
	}
	kind := "select"
	switch ev.Kind {
	case core.KCall:
		kind = "call"
	case core.KRecv:
		kind = "recv"
	}
	site := kind + c.ordinal(ev.Node)
	if ev.Kind == core.KCall && ev.Call != nil {
		// calls are named by their callee, so that unrelated calls added or removed earlier in the
		// function do not rename the site
		site = c.callOrdinal(ev.Call, ev.Frame.Info())
	}
	if ctxP != nil {
		s.note("R2f", name+"/blocking-site:"+site+"/ctx", ev.Pos, !hasCtx, "the blocking site listens to the context",
			"this blocking site does not listen to the function's context: cancellation is not noticed while blocked here", p)
	}
	for _, cp := range chans {
		s.note("R2f", name+"/blocking-site:"+site+"/"+cp.Name(), ev.Pos, !has[cp], "the blocking site listens to "+cp.Name(),
			"this blocking site does not listen to the parameter "+cp.Name()+": an error/cancel signal on it is ignored while the function is blocked here", p)
	}
}

// iv: identVar, with a parameter of an inlined helper resolved to the caller's variable it was bound to.
func iv(e ast.Expr, fr *core.Frame) *types.Var {
	v := identVar(e, fr)
	if v == nil {
		return nil
	}
	for f := fr; f != nil && f.Parent != nil; f = f.Parent {
		if f.Call == nil {
			continue
		}
		if arg, afr, ok := paramArgIn(v, f); ok {
			if av := identVar(arg, afr); av != nil {
				v, fr = av, afr
				continue
			}
			return v
		}
	}
	return v
}

// ownBody: the frame is the entry or an inlined declared helper of it (no function literal in between).
func ownBody(fr *core.Frame) bool {
	for f := fr; f != nil && f.Parent != nil; f = f.Parent {
		if f.Lit != nil {
			return false
		}
	}
	return true
}

var doneMarkers = map[*types.Var]*types.Var{}

// doneMarker: a stand-in variable meaning "this local holds a context's Done() channel".
func doneMarker(v *types.Var) *types.Var {
	synthMu.Lock()
	defer synthMu.Unlock()
	if m, ok := doneMarkers[v]; ok {
		return m
	}
	m := types.NewVar(v.Pos(), v.Pkg(), v.Name()+"#done", v.Type())
	doneMarkers[v] = m
	return m
}

// waitHelperFollow: unexported same-package functions that are handed a context or a channel — the
// blocking select of a waiter may have been extracted into one.
func waitHelperFollow(self *types.Func) func(*types.Func) bool {
	return func(f *types.Func) bool {
		if f.Pkg() == nil || f.Pkg() != self.Pkg() || f.Exported() || f.Origin() == self.Origin() {
			return false
		}
		sig, ok := f.Type().(*types.Signature)
		if !ok {
			return false
		}
		for i := 0; i < sig.Params().Len(); i++ {
			t := sig.Params().At(i).Type()
			if isChanType(t) || isContextType(t) {
				return true
			}
		}
		return false
	}
}
