package rules

import (
	"go/ast"
	"go/token"
	"go/types"

	"golang.org/x/tools/go/types/typeutil"

	"utilverif/internal/core"
)

func init() {
	register(&Rule{ID: "Gcsync", Text: gcsyncText, Run: runGcsync})
}

const gcsyncText = `R12/R16 csync. Every grant write (locked=true, writing=true, nreaders++) is, in its own section, implied by the availability condition the property states (Mutex: !locked; write: nreaders==0 && !writing; read: !writing && writeWaiting==0). Every un-grant write (locked=false, writing=false, nreaders--) happens only under "the status word was 1" / "first release" and in the mode of the grant. Lock/TryLock return success only with status==1 / !unlocked and after a grant write on the same path; failure returns follow no grant; the ctx.Done() arm runs the release closure. writeWaiting++ / writeWaiting-- balance on every returning path of RWMutex.Lock, with writeWaiting-- only on the slow-path grant or when a waiting writer gives up. R16: a release closure performs an atomic Swap/CompareAndSwap before it enters any critical section.`

func eq(a, b string) *formula {
	if b < a {
		a, b = b, a
	}
	return atom("EQ(" + a + "," + b + ")")
}

func fld(s string) *formula { return atom("F(" + s + ")") }

func runGcsync(c *Ctx) {
	a := newAgg(c)
	defer a.flush()
	// the guarded fields, by role: Mutex has one bool (held); RWMutex has one bool (a writer holds) and
	// two counters, the first counting readers that hold, the second writers that wait
	locked := fieldByRole(c, "csync", "Mutex", isBoolType, 1, "the held flag (bool field)")
	nread := fieldByRole(c, "csync", "RWMutex", isIntType, 1, "the reader count (first integer field)")
	writing := fieldByRole(c, "csync", "RWMutex", isBoolType, 1, "the writer flag (bool field)")
	wwait := fieldByRole(c, "csync", "RWMutex", isIntType, 2, "the waiting-writer count (second integer field)")
	availW := fand(eq(nread, "0"), fnot(fld(writing)))
	availR := fand(fnot(fld(writing)), eq(wwait, "0"))
	type target struct {
		recv, name string
		rw         bool
	}
	for _, t := range []target{{"Mutex", "Lock", false}, {"Mutex", "TryLock", false}, {"RWMutex", "Lock", true}, {"RWMutex", "TryLock", true}} {
		d0 := c.declByName("R12", "csync", t.recv, t.name)
		if d0 == nil {
			continue
		}
		// the acquisition functions: the API function itself when it holds the status word, otherwise the
		// same-package functions it dispatches to (return m.tryLockWrite()), each in the mode it grants
		type acq struct {
			decl *core.FuncDecl
			mode int // 0: by the bool parameter, 1: write only, 2: read only
		}
		hasStatus := func(d *core.FuncDecl) bool {
			return localWhere(d, d.Decl, func(v *types.Var, _ *ast.Ident) bool { return core.IsAtomicType(v.Type()) }) != nil
		}
		var afs []acq
		if hasStatus(d0) {
			afs = append(afs, acq{d0, 0})
		} else {
			pure := true
			wrP := paramWhere(d0, isBoolType)
			c.Walk("R12", &core.Config{}, core.Entry{Decl: d0}, func(p *core.Path) {
				g := prepare(c, p)
				for i, ev := range p.Events {
					if ev.Kind != core.KReturn || ev.Frame.Parent != nil {
						continue
					}
					var hd *core.FuncDecl
					if len(ev.Results) == 1 {
						if call, ok := unparen(ev.Results[0]).(*ast.CallExpr); ok {
							if f, _ := typeutil.Callee(ev.Frame.Info(), call).(*types.Func); f != nil && f.Pkg() == d0.Obj.Pkg() {
								if x := c.Prog.Decl(f.Origin()); x != nil && hasStatus(x) {
									hd = x
								}
							}
						}
					}
					if hd == nil {
						pure = false
						continue
					}
					mode := 0
					if paramWhere(hd, isBoolType) == nil {
						grantsW := len(declsWhere(c, "csync", func(dd *core.FuncDecl, n ast.Node) bool {
							if dd != hd {
								return false
							}
							rhs, ok := assignsFieldNode(dd, n, writing)
							return ok && rhs != nil && core.ExprString(rhs) == "true"
						})) > 0
						grantsR := len(declsWhere(c, "csync", func(dd *core.FuncDecl, n ast.Node) bool {
							if dd != hd {
								return false
							}
							st, ok := n.(*ast.IncDecStmt)
							if !ok || st.Tok != token.INC {
								return false
							}
							fv := fieldVar(st.X, &core.Frame{Pkg: dd.Pkg})
							return fv != nil && core.FieldName(fv) == nread
						})) > 0
						switch {
						case grantsW && !grantsR:
							mode = 1
						case grantsR && !grantsW:
							mode = 2
						}
						if t.rw && mode != 0 && wrP != nil {
							want := fld(c.Role(wrP))
							if mode == 2 {
								want = fnot(want)
							}
							a.requireGuard("R12", core.FuncName(d0.Obj)+"/dispatch-mode", g, i, false, want, "dispatching to "+core.FuncName(hd.Obj))
						}
					}
					seen := false
					for _, x := range afs {
						if x.decl == hd {
							seen = true
						}
					}
					if !seen {
						afs = append(afs, acq{hd, mode})
					}
				}
			})
			if !pure || len(afs) == 0 {
				c.MissingAnchor("R12", core.FuncName(d0.Obj)+": the local status word (a sync/atomic value), in the function or in the functions it dispatches to")
				continue
			}
		}
		for _, af := range afs {
			d := af.decl
			fname := core.FuncName(d.Obj)
			// the release closures: the escaping literals of the type the function returns as its release
			// function (a section callback given a name first is part of the body of whoever hands it to HoldLock)
			var lits []*ast.FuncLit
			{
				var relT types.Type
				if sig, ok := d.Obj.Type().(*types.Signature); ok && sig.Results().Len() > 0 {
					relT = sig.Results().At(0).Type()
				}
				for _, l := range escapingLits(c, d) {
					if lt := d.Pkg.TypesInfo.TypeOf(l); relT != nil && lt != nil && !types.Identical(lt, relT) {
						continue
					}
					lits = append(lits, l)
				}
			}
			// the variables the rows talk about, found by structure (not by name)
			wr, st, pre := "?write", "?status", "?pre"
			if v := paramWhere(d, isBoolType); v != nil {
				wr = c.Role(v)
			}
			// the mode conjunct: the bool parameter, or fixed by the function's specialisation
			unsat := fand(atom("mode"), fnot(atom("mode")))
			andMode := func(f *formula, write bool) *formula {
				switch af.mode {
				case 0:
					if write {
						return fand(f, fld(wr))
					}
					return fand(f, fnot(fld(wr)))
				case 1:
					if write {
						return f
					}
					return unsat
				default:
					if write {
						return unsat
					}
					return f
				}
			}
			if v := localWhere(d, d.Decl, func(v *types.Var, _ *ast.Ident) bool { return core.IsAtomicType(v.Type()) }); v != nil {
				st = c.Role(v)
			} else {
				c.MissingAnchor("R12", fname+": the local status word (a sync/atomic value)")
			}
			if v := assignedFromCall(d, d.Decl, 0, func(call *ast.CallExpr) bool { _, ok := callSel(call, "Swap"); return ok }); v != nil {
				pre = c.Role(v)
			}
			// the polarity of a boolean status word: "released/failed" (set on the path that does not
			// grant) or "held" (set next to the grant write)
			heldPolarity := false
			ast.Inspect(d.Decl.Body, func(n ast.Node) bool {
				blk, ok := n.(*ast.BlockStmt)
				if !ok {
					return true
				}
				storesTrue, grants := false, false
				for _, stt := range blk.List {
					if es, ok := stt.(*ast.ExprStmt); ok {
						if call, ok := es.X.(*ast.CallExpr); ok && len(call.Args) == 1 {
							if sel, ok := unparen(call.Fun).(*ast.SelectorExpr); ok && sel.Sel.Name == "Store" && core.ExprString(call.Args[0]) == "true" {
								if v := identVar(sel.X, &core.Frame{Pkg: d.Pkg}); v != nil && core.IsAtomicType(v.Type()) {
									storesTrue = true
								}
							}
						}
					}
					for _, f := range []string{locked, writing} {
						if rhs, ok := assignsFieldNode(d, stt, f); ok && rhs != nil && core.ExprString(rhs) == "true" {
							grants = true
						}
					}
					if ids, ok := stt.(*ast.IncDecStmt); ok && ids.Tok == token.INC {
						if fv := fieldVar(ids.X, &core.Frame{Pkg: d.Pkg}); fv != nil && core.FieldName(fv) == nread {
							grants = true
						}
					}
				}
				if storesTrue && grants {
					heldPolarity = true
				}
				return true
			})
			isGrant := func(ev *core.Event) bool {
				return assignsField(ev, locked, "true") || assignsField(ev, writing, "true") || incDecField(ev, nread, token.INC)
			}
			isUngrant := func(ev *core.Event) bool {
				return assignsField(ev, locked, "false") || assignsField(ev, writing, "false") || incDecField(ev, nread, token.DEC)
			}
			// the function itself
			c.Walk("R12", &core.Config{Follow: samePkgFollow(d.Pkg.PkgPath)}, core.Entry{Decl: d}, func(p *core.Path) {
				g := prepare(c, p)
				granted := false
				releaseRan := false
				inc, dec := 0, 0
				for i, ev := range p.Events {
					switch {
					case assignsField(ev, locked, "true"):
						a.requireGuard("R12", fname+"/grant(locked=true)", g, i, true, fnot(fld(locked)), "the grant m.locked = true")
					case assignsField(ev, writing, "true"):
						a.requireGuard("R12", fname+"/grant(writing=true)", g, i, true, availW, "the write grant m.writing = true")
					case incDecField(ev, nread, token.INC):
						a.requireGuard("R12", fname+"/grant(nreaders++)", g, i, true, availR, "the read grant m.nreaders++")
					case incDecField(ev, wwait, token.INC):
						inc++
						a.requireGuard("R12", fname+"/register(writeWaiting++)", g, i, true, andMode(fnot(availW), true), "the registration m.writeWaiting++")
					case incDecField(ev, wwait, token.DEC) && !inReleaseLit(ev.Frame, lits):
						dec++
						a.requireGuard("R12", fname+"/deregister(writeWaiting--)[grant]", g, i, true, andMode(availW, true), "m.writeWaiting-- on the slow-path grant")
					case incDecField(ev, wwait, token.DEC):
						dec++
					}
					if isGrant(ev) {
						granted = true
					}
					if isUngrant(ev) {
						granted = false
					}
					if ev.Kind == core.KEnter && ev.Inner.Lit != nil {
						for _, l := range lits {
							if ev.Inner.Lit == l {
								releaseRan = true
							}
						}
					}
					if ev.Kind == core.KReturn && ev.Frame.Parent == nil && len(ev.Results) == 2 {
						second := unparen(ev.Results[1])
						success := false
						if t.name == "Lock" {
							success = isNilExpr(second, ev.Frame)
						} else if id, ok := second.(*ast.Ident); ok {
							success = id.Name == "true"
						}
						if success {
							want := eq("1", st)
							if t.name == "TryLock" {
								want = fnot(fld(st))
								if heldPolarity {
									want = fld(st)
								}
							}
							a.requireGuard("R12", fname+"/return-success", g, i, false, want, "a successful return")
							a.note("R12", fname+"/return-success/after-grant", ev.Pos, !granted,
								"every successful return follows a grant write on the same path",
								"the function reports success on a path on which no grant write (locked/writing = true, nreaders++) happened: the caller believes it holds the lock and its release will un-grant somebody else's hold", p)
						} else {
							a.note("R12", fname+"/return-failure/no-grant", ev.Pos, granted,
								"failure returns follow no grant write",
								"the function returns failure on a path on which it granted itself the lock and did not undo it", p)
							if t.name == "Lock" {
								a.note("R12", fname+"/return-failure/release-called", ev.Pos, !releaseRan,
									"the cancelled path runs the release closure before returning",
									"Lock returns an error without having run its release closure: a registered waiter leaves a trace (writeWaiting) behind", p)
							}
						}
					}
				}
				if t.rw && t.name == "Lock" && p.End == core.EndReturn {
					a.note("R12", fname+"/writeWaiting-balance", d.Decl.Pos(), inc != dec,
						"every returning path performs as many writeWaiting-- as writeWaiting++",
						sprintf("a returning path performs %d writeWaiting++ and %d writeWaiting--: a writer that gave up or was granted still counts as waiting (readers starve) or is subtracted twice", inc, dec), p)
				}
			})
			// the release closures
			for li, l := range lits {
				name := sprintf("%s.release#%d", fname, li+1)
				c.Walk("R16", &core.Config{Follow: samePkgFollow(d.Pkg.PkgPath)}, core.Entry{Lit: l, Pkg: d.Pkg, Outer: d, Name: name}, func(p *core.Path) {
					g := prepare(c, p)
					swapped, branched := false, false
					for i, ev := range p.Events {
						if ev.Kind == core.KCall && ev.Callee != nil && ev.Callee.Pkg() != nil && ev.Callee.Pkg().Path() == "sync/atomic" &&
							(ev.Callee.Name() == "Swap" || ev.Callee.Name() == "CompareAndSwap") {
							swapped = true
						}
						if ev.Kind == core.KBranch && swapped {
							branched = true
						}
						if ev.Kind == core.KAcquire {
							a.note("R16", name+"/test-and-set-prologue", ev.Pos, !(swapped && branched),
								"the closure decides by an atomic Swap/CompareAndSwap before it enters a critical section",
								"the release closure enters a critical section without first winning an atomic test-and-set: a repeated release changes who holds the lock", p)
						}
						first := fnot(fld(st + ".Swap(true)"))
						if heldPolarity {
							first = fld(st + ".Swap(false)")
						}
						held := for_(eq("1", pre), fand(fnot(eq("0", pre)), fnot(eq("2", pre))))
						switch {
						case assignsField(ev, locked, "false"):
							w := held
							if t.name == "TryLock" {
								w = first
							}
							a.requireGuard("R12", name+"/ungrant(locked=false)", g, i, false, w, "the un-grant m.locked = false")
						case assignsField(ev, writing, "false"):
							w := andMode(held, true)
							if t.name == "TryLock" {
								w = andMode(first, true)
							}
							a.requireGuard("R12", name+"/ungrant(writing=false)", g, i, false, w, "the un-grant m.writing = false")
						case incDecField(ev, nread, token.DEC):
							w := andMode(held, false)
							if t.name == "TryLock" {
								w = andMode(first, false)
							}
							a.requireGuard("R12", name+"/ungrant(nreaders--)", g, i, false, w, "the un-grant m.nreaders--")
						case incDecField(ev, wwait, token.DEC):
							a.requireGuard("R12", name+"/deregister(writeWaiting--)[give-up]", g, i, false, andMode(eq("0", pre), true), "m.writeWaiting-- in the release closure")
						case isGrant(ev):
							a.note("R12", name+"/no-grant-in-release", ev.Pos, true, "", "a release closure performs a grant write", p)
						}
					}
				})
			}
			// floors: the instances confirmed by hand
			a.expect("R12", fname+"/return-success", 1, "successful returns")
			if !t.rw {
				a.expect("R12", fname+"/grant(locked=true)", 1, "grant writes of m.locked")
			} else {
				if af.mode != 2 {
					a.expect("R12", fname+"/grant(writing=true)", 1, "write grants")
				}
				if af.mode != 1 {
					a.expect("R12", fname+"/grant(nreaders++)", 1, "read grants")
				}
			}
		}
		if t.rw {
			// between them the acquisition functions cover both modes
			w, r := false, false
			for _, af := range afs {
				w = w || af.mode != 2
				r = r || af.mode != 1
			}
			if !w || !r {
				c.MissingAnchor("R12", core.FuncName(d0.Obj)+": an acquisition function for each mode (write and read)")
			}
		}
	}
	// Locker wrappers: Unlock takes the stored release function exactly once
	if d := c.declByName("R16", "csync", "MutexLocker", "Unlock"); d != nil {
		c.Walk("R16", &core.Config{}, core.Entry{Decl: d}, func(p *core.Path) {
			swapped := false
			for _, ev := range p.Events {
				if ev.Kind == core.KCall && ev.Callee != nil && ev.Callee.Name() == "Swap" && ev.Callee.Pkg() != nil && ev.Callee.Pkg().Path() == "sync/atomic" {
					swapped = true
				}
				if ev.Kind == core.KCall && ev.Callee == nil && ev.Builtin == "" {
					if _, isStar := unparen(ev.Call.Fun).(*ast.StarExpr); isStar {
						a.note("R16", core.FuncName(d.Obj)+"/take-release-once", ev.Pos, !swapped,
							"the stored release function is taken with an atomic Swap(nil) before it is called",
							"the stored release function is called without having been taken atomically: two Unlock calls can release twice", p)
					}
				}
			}
		})
	}
	_ = types.Typ
}

// inReleaseLit reports whether a frame is (inside) one of the release closures.
func inReleaseLit(fr *core.Frame, lits []*ast.FuncLit) bool {
	for f := fr; f != nil; f = f.Parent {
		for _, l := range lits {
			if f.Lit == l {
				return true
			}
		}
	}
	return false
}
