package rules

import (
	"go/ast"
	"go/token"
	"go/types"

	"utilverif/internal/core"
)

func init() {
	register(&Rule{ID: "Gmapinit", Text: gmapinitText, Run: runGmapinit})
}

const gmapinitText = `R18 map fields are never nil when written. For every struct field of map type that some function of the package writes through an index expression (x.f[k] = v, x.f[k]++), every composite literal of the struct sets the field, and every value stored into the field — in a composite literal or by assignment — is a make(...) call, a map literal, a local last assigned from one of those on the path, or a value the path has tested non-nil. (A write to a nil map panics; reads, len, range and delete do not, which is why tests that only read pass.)`

func runGmapinit(c *Ctx) {
	a := newAgg(c)
	defer a.flush()
	// the map fields written through an index expression
	written := map[*types.Var]bool{}
	for _, d := range c.declsInScope() {
		if d.Decl.Body == nil {
			continue
		}
		fr := &core.Frame{Pkg: d.Pkg}
		mark := func(e ast.Expr) {
			ix, ok := unparen(e).(*ast.IndexExpr)
			if !ok {
				return
			}
			if fv := fieldVar(ix.X, fr); fv != nil {
				if _, isMap := fv.Type().Underlying().(*types.Map); isMap {
					written[fv.Origin()] = true
				}
			}
		}
		ast.Inspect(d.Decl.Body, func(n ast.Node) bool {
			switch s := n.(type) {
			case *ast.AssignStmt:
				for _, l := range s.Lhs {
					mark(l)
				}
			case *ast.IncDecStmt:
				mark(s.X)
			}
			return true
		})
	}
	if len(written) == 0 {
		return
	}
	ownerHas := func(t types.Type) []*types.Var {
		if pt, ok := t.(*types.Pointer); ok {
			t = pt.Elem()
		}
		st, ok := t.Underlying().(*types.Struct)
		if !ok {
			return nil
		}
		var out []*types.Var
		for i := 0; i < st.NumFields(); i++ {
			f := st.Field(i)
			if orig := structFieldOrigin(t, i); orig != nil {
				f = orig
			}
			if written[f.Origin()] {
				out = append(out, f.Origin())
			}
		}
		return out
	}
	for _, d := range c.declsInScope() {
		d := d
		if d.Decl.Body == nil {
			continue
		}
		name := core.FuncName(d.Obj)
		fr := &core.Frame{Pkg: d.Pkg}
		relevant := false
		type omitted struct {
			lit *ast.CompositeLit
			f   *types.Var
		}
		var omitting []omitted
		ast.Inspect(d.Decl.Body, func(n ast.Node) bool {
			switch x := n.(type) {
			case *ast.CompositeLit:
				t := d.Pkg.TypesInfo.TypeOf(x)
				if t == nil {
					return true
				}
				fs := ownerHas(t)
				if len(fs) == 0 {
					return true
				}
				relevant = true
				// every literal of the struct sets the field
				for _, f := range fs {
					set := false
					for _, el := range x.Elts {
						if kv, ok := el.(*ast.KeyValueExpr); ok {
							if id, ok := kv.Key.(*ast.Ident); ok {
								if kf, _ := d.Pkg.TypesInfo.ObjectOf(id).(*types.Var); kf != nil && kf.Origin() == f {
									set = true
								}
							}
						} else {
							set = true // positional literal: every field is given
						}
					}
					if set {
						a.note("R18", name+"/literal-sets("+core.FieldName(f)+")"+c.ordinal(x), x.Pos(), false,
							"a composite literal of the struct gives the indexed-written map field a value (or the field is assigned before the function returns)", "", nil)
					} else {
						omitting = append(omitting, omitted{x, f})
					}
				}
			case *ast.AssignStmt:
				for _, l := range x.Lhs {
					if _, isIdx := unparen(l).(*ast.IndexExpr); isIdx {
						continue
					}
					if fv := fieldVar(l, fr); fv != nil && written[fv.Origin()] {
						relevant = true
					}
				}
			}
			return true
		})
		if !relevant {
			continue
		}
		c.Walk("R18", &core.Config{Follow: func(*types.Func) bool { return false }}, core.Entry{Decl: d}, func(p *core.Path) {
			g := prepare(c, p)
			lastRhs := map[*types.Var]localDef{}
			var nonNil func(e ast.Expr, fr *core.Frame, i, depth int) bool
			nonNil = func(e ast.Expr, fr *core.Frame, i, depth int) bool {
				switch x := unparen(e).(type) {
				case *ast.CompositeLit:
					return true
				case *ast.CallExpr:
					if id, ok := unparen(x.Fun).(*ast.Ident); ok && id.Name == "make" {
						if _, isBuiltin := fr.Info().ObjectOf(id).(*types.Builtin); isBuiltin {
							return true
						}
					}
					return false
				}
				v := identVar(e, fr)
				if v == nil {
					return false
				}
				if ok, _ := implies(g.litsBefore(i, false), fnot(eq("nil", c.Role(v)))); ok {
					return true
				}
				if v.IsField() || depth > 3 {
					return false
				}
				if dd, has := lastRhs[v]; has {
					return nonNil(dd.expr, dd.fr, i, depth+1)
				}
				return false
			}
			// a literal that leaves the field out: the field is assigned later on the path, before the
			// function ends (k := &T{}; k.f = make(…))
			if p.End == core.EndReturn {
				for _, om := range omitting {
					at, direct := -1, false
					contains := func(e ast.Expr) bool {
						found := false
						if e != nil {
							ast.Inspect(e, func(y ast.Node) bool {
								if y == ast.Node(om.lit) {
									found = true
								}
								return !found
							})
						}
						return found
					}
					for i, ev := range p.Events {
						switch ev.Kind {
						case core.KAssign:
							if contains(ev.Rhs) && at < 0 {
								at = i
							}
						case core.KReturn:
							for _, r := range ev.Results {
								if contains(r) {
									at, direct = i, true
								}
							}
						case core.KCall, core.KEnter, core.KGo, core.KDefer:
							if ev.Call != nil {
								for _, arg := range ev.Call.Args {
									if contains(arg) {
										at, direct = i, true
									}
								}
							}
						}
					}
					if at < 0 {
						continue
					}
					assigned := false
					if !direct {
						for j := at + 1; j < len(p.Events); j++ {
							b := p.Events[j]
							if b.Kind == core.KAssign && !b.FieldInit && b.Var != nil && b.Var.IsField() && b.Var.Origin() == om.f {
								if _, isIdx := unparen(b.Lhs).(*ast.IndexExpr); !isIdx {
									assigned = true
								}
							}
						}
					}
					a.note("R18", name+"/literal-sets("+core.FieldName(om.f)+")"+c.ordinal(om.lit), om.lit.Pos(), !assigned,
						"a composite literal of the struct gives the indexed-written map field a value (or the field is assigned before the function returns)",
						"a composite literal of the struct leaves the map field "+core.FieldName(om.f)+" nil and the path does not assign it before the function ends, while the package writes it through an index expression: the first store panics (assignment to entry in nil map)", p)
				}
			}
			for i, ev := range p.Events {
				if ev.Kind != core.KAssign {
					continue
				}
				if _, isIdx := unparen(ev.Lhs).(*ast.IndexExpr); isIdx && !ev.FieldInit {
					continue
				}
				if !ev.FieldInit {
					if v := identVar(ev.Lhs, ev.Frame); v != nil && !v.IsField() {
						delete(lastRhs, v)
						if ev.Rhs != nil && ev.RhsIdx < 0 && (ev.Tok == token.ASSIGN || ev.Tok == token.DEFINE) {
							lastRhs[v] = localDef{expr: ev.Rhs, fr: ev.Frame}
						}
					}
				}
				if ev.Var == nil || !ev.Var.IsField() || !written[ev.Var.Origin()] {
					continue
				}
				ok := ev.Rhs != nil && ev.RhsIdx < 0 && nonNil(ev.Rhs, ev.Frame, i, 0)
				what := "?"
				if ev.Rhs != nil {
					what = core.ExprString(ev.Rhs)
				}
				a.note("R18", name+"/stores-non-nil-map("+core.FieldName(ev.Var)+")", ev.Pos, !ok,
					"the value stored into an indexed-written map field is a make(...)/map literal, or was found non-nil on the path",
					"the map field "+core.FieldName(ev.Var)+" is given "+what+", which can be nil on this path, and the package writes the field through an index expression: the first store panics (assignment to entry in nil map)", p)
			}
		})
	}
}
