package rules

import (
	"fmt"
	"go/ast"
	"go/token"
	"go/types"
	"os"
	"sort"
	"strings"

	"utilverif/internal/core"
)

func (r *r1) varName(v *types.Var) (rule, name string) {
	if v.IsField() {
		return "R1a", core.FieldName(v)
	}
	d := r.c.Prog.EnclosingDecl(v.Pos())
	if d != nil {
		return "R1b", core.FuncName(d.Obj) + "/" + v.Name()
	}
	return "R1b", v.Name()
}

func protects(h core.Held, write bool) bool { return !(h.Read && write) }

func (r *r1) decide() {
	c := r.c
	var vars []*types.Var
	for v := range r.accesses {
		vars = append(vars, v)
	}
	sort.Slice(vars, func(i, j int) bool {
		_, a := r.varName(vars[i])
		_, b := r.varName(vars[j])
		return a < b
	})
	var candidates []*types.Var
	guards := map[string][]string{}
	for _, v := range vars {
		rule, name := r.varName(v)
		accs := r.accesses[v]
		if why, ok := r1Exempt[name]; ok {
			c.Add(&Obligation{Rule: rule, Construct: name, Pos: c.Prog.Pos(v.Pos()), Verdict: Discharged, Trivial: true, Detail: "exempt: " + why})
			continue
		}
		writes := 0
		for _, a := range accs {
			if a.write {
				writes++
			}
		}
		if writes == 0 {
			c.Add(&Obligation{Rule: rule, Construct: name, Pos: c.Prog.Pos(v.Pos()), Verdict: Discharged, Trivial: true,
				Detail: sprintf("never written outside construction (%d reads)", len(accs))})
			continue
		}
		// intersection of protecting locks
		common := map[*types.Var]bool{}
		first := true
		for _, a := range accs {
			cur := map[*types.Var]bool{}
			for _, h := range a.locks {
				if protects(h, a.write) {
					cur[h.Var] = true
				}
			}
			if first {
				common, first = cur, false
				continue
			}
			for l := range common {
				if !cur[l] {
					delete(common, l)
				}
			}
		}
		if len(common) > 0 {
			var ls []string
			for l := range common {
				ls = append(ls, core.LockName(l))
			}
			sort.Strings(ls)
			for _, l := range ls {
				guards[l] = append(guards[l], name)
			}
			ctxs := map[string]bool{}
			for _, a := range accs {
				ctxs[a.ctx.key] = true
			}
			c.Add(&Obligation{Rule: rule, Construct: name, Pos: c.Prog.Pos(v.Pos()), Verdict: Discharged,
				Detail: sprintf("guarded by %s on all %d accesses (%d writes) in %d calling contexts", strings.Join(ls, "+"), len(accs), writes, len(ctxs))})
			continue
		}
		candidates = append(candidates, v)
	}
	// R1d second pass over the contexts that touch a candidate
	pub := r.publicationPass(candidates)
	for _, v := range candidates {
		rule, name := r.varName(v)
		accs := r.accesses[v]
		if res := pub[v]; res != nil && res.ok {
			c.Add(&Obligation{Rule: "R1d", Construct: name, Pos: c.Prog.Pos(v.Pos()), Verdict: Discharged,
				Detail: sprintf("published by close(%s): %d writer paths (election: %v), %d reader paths all behind a receive", res.chanName, res.writerPaths, res.election, res.readerPaths)})
			continue
		}
		// report: the two accesses with disjoint locksets
		var a1, a2 *r1Access
		for _, a := range accs {
			if a.write {
				a1 = a
				break
			}
		}
		for _, a := range accs {
			if a == a1 {
				continue
			}
			disjoint := true
			for _, h := range a.locks {
				for _, g := range a1.locks {
					if h.Var == g.Var && protects(h, a.write) && protects(g, a1.write) {
						disjoint = false
					}
				}
			}
			if disjoint {
				a2 = a
				break
			}
		}
		detail := sprintf("no common lock over %d accesses: write at %s holds %s (via %s)", len(accs), c.Prog.Pos(a1.pos), core.LockSetString(a1.locks), a1.ctx.chain)
		if a2 != nil {
			rw := "read"
			if a2.write {
				rw = "write"
			}
			detail += sprintf("; %s at %s holds %s (via %s)", rw, c.Prog.Pos(a2.pos), core.LockSetString(a2.locks), a2.ctx.chain)
		}
		if res := pub[v]; res != nil && res.why != "" {
			detail += "; not a publication idiom: " + res.why
		}
		c.Add(&Obligation{Rule: rule, Construct: name, Pos: c.Prog.Pos(a1.pos), Verdict: Violated, Detail: detail})
	}
	// R1c: callback field contracts
	var fields []*types.Var
	for f := range r.fieldLits {
		fields = append(fields, f)
	}
	sort.Slice(fields, func(i, j int) bool { return core.FieldName(fields[i]) < core.FieldName(fields[j]) })
	for _, f := range fields {
		calls := r.fieldCalls[f]
		var sites []string
		for _, fc := range calls {
			sites = append(sites, c.Prog.Pos(fc.pos)+core.LockSetString(fc.locks))
		}
		sort.Strings(sites)
		sites = uniq(sites)
		c.Add(&Obligation{Rule: "R1c", Construct: core.FieldName(f), Pos: c.Prog.Pos(f.Pos()), Verdict: Discharged,
			Detail: sprintf("%d closures stored; invoked at %d sites %v; closures start with {%s}", len(r.fieldLits[f]), len(sites), sites, lockKey(r.contractLocks(f)))})
	}
	// R1a-opt: option callbacks run on fresh containers
	sort.Strings(r.applyCalls)
	r.applyCalls = uniq(r.applyCalls)
	bad := false
	for _, s := range r.applyCalls {
		if strings.HasSuffix(s, "NOT-FRESH") {
			bad = true
		}
	}
	if len(r.applyCalls) > 0 || c.InScope("routine") || c.InScope("keyed") {
		o := &Obligation{Rule: "R1a-opt", Construct: "option.cb/construction-context", Pos: "-", Verdict: Discharged,
			Detail: sprintf("ApplyTo* call sites pass a freshly constructed container: %v", r.applyCalls)}
		if bad {
			o.Verdict = Violated
			o.Detail = "an option is applied to a container that is not freshly constructed: " + strings.Join(r.applyCalls, " ")
		}
		c.Add(o)
	}
	// hygiene findings
	var hk []string
	for k := range r.hygiene {
		hk = append(hk, k)
	}
	sort.Strings(hk)
	for _, k := range hk {
		c.Add(r.hygiene[k])
	}
	// R11e: a closure handed to client code must not block on a lock the library holds around client calls
	nre := 0
	seenRe := map[string]bool{}
	for _, ra := range r.reentrantAcqs {
		at, held := r.clientLocks[ra.lock]
		if !held {
			continue
		}
		// only locks of the package that hands the closure out: for a lock of another package's type
		// (the target CContainer of a RefCount) lock identity by field cannot tell the instances apart (A1)
		if d := c.Prog.EnclosingDecl(ra.pos); d == nil || ra.lock.Pkg() == nil || !strings.HasPrefix(ra.chainPkg, ra.lock.Pkg().Path()) {
			continue
		}
		construct := "closure@" + enclosingNameAt(c, ra.pos) + "/blocks-on:" + core.LockName(ra.lock)
		if seenRe[construct] {
			continue
		}
		seenRe[construct] = true
		nre++
		c.Add(&Obligation{Rule: "R11e", Construct: construct, Pos: c.Prog.Pos(ra.pos), Verdict: Violated, Witness: ra.wit,
			Detail: sprintf("a closure the library hands to client code acquires %s with a blocking Lock, and the library calls client functions with %s held (e.g. at %s): a client that invokes the closure from inside such a callback deadlocks on itself; reached via %s",
				core.LockName(ra.lock), core.LockName(ra.lock), c.Prog.Pos(at), ra.chain)})
	}
	if len(r.clientLocks) > 0 {
		var ls []string
		for l := range r.clientLocks {
			ls = append(ls, core.LockName(l))
		}
		sort.Strings(ls)
		if nre == 0 {
			c.Add(&Obligation{Rule: "R11e", Construct: "all/handed-out-closures-do-not-block-on-callback-locks", Pos: "-", Verdict: Discharged,
				Detail: sprintf("locks held around calls of client function values: %v; %d blocking acquisitions in closures handed to client code, none of one of these locks (TryLock or a new goroutine is used instead)", ls, len(r.reentrantAcqs))})
		}
	}
	c.Add(&Obligation{Rule: "R11a", Construct: "all/lock-release-pairing", Pos: "-", Verdict: Discharged,
		Detail: sprintf("%d calling contexts walked; every Lock/RLock/TryLock is released on every non-panicking path and no Unlock happens on a path that does not hold the lock, except as listed", r.nContexts)})
	// R11b: lock order
	r.lockOrder()
	// inferred guards, for evidence
	var gl []string
	for l := range guards {
		gl = append(gl, l)
	}
	sort.Strings(gl)
	for _, l := range gl {
		c.Notes = append(c.Notes, sprintf("inferred guard %s: %s", l, strings.Join(guards[l], ", ")))
	}
	c.Notes = append(c.Notes, sprintf("R1: %d calling contexts, %d variables with accesses", r.nContexts, len(vars)))
}

func uniq(s []string) []string {
	var out []string
	for i, x := range s {
		if i == 0 || x != s[i-1] {
			out = append(out, x)
		}
	}
	return out
}

func (r *r1) lockOrder() {
	c := r.c
	adj := map[*types.Var][]*types.Var{}
	var es []string
	for e := range r.edges {
		adj[e[0]] = append(adj[e[0]], e[1])
		es = append(es, core.LockName(e[0])+"→"+core.LockName(e[1]))
	}
	sort.Strings(es)
	// cycle detection
	state := map[*types.Var]int{}
	var cyc []string
	var dfs func(v *types.Var, stack []*types.Var) bool
	dfs = func(v *types.Var, stack []*types.Var) bool {
		state[v] = 1
		stack = append(stack, v)
		for _, w := range adj[v] {
			if state[w] == 1 {
				for _, s := range stack {
					cyc = append(cyc, core.LockName(s))
				}
				cyc = append(cyc, core.LockName(w))
				return true
			}
			if state[w] == 0 && dfs(w, stack) {
				return true
			}
		}
		state[v] = 2
		return false
	}
	var nodes []*types.Var
	for v := range adj {
		nodes = append(nodes, v)
	}
	sort.Slice(nodes, func(i, j int) bool { return core.LockName(nodes[i]) < core.LockName(nodes[j]) })
	for _, v := range nodes {
		if state[v] == 0 && dfs(v, nil) {
			c.Add(&Obligation{Rule: "R11b", Construct: "lock-order", Pos: "-", Verdict: Violated, Detail: "cycle in the lock-order graph: " + strings.Join(cyc, " → ")})
			return
		}
	}
	c.Add(&Obligation{Rule: "R11b", Construct: "lock-order", Pos: "-", Verdict: Discharged, Detail: sprintf("acyclic; %d edges: %s", len(es), strings.Join(es, ", "))})
}

// ---------------------------------------------------------------------------------------------
// R1d publication by channel close

type pubResult struct {
	ok          bool
	why         string
	chanName    string
	writerPaths int
	readerPaths int
	election    bool
}

type pubPath struct {
	ctx       *r1Context
	writes    bool
	election  bool         // an atomic Swap/CompareAndSwap branch precedes the first write
	closes    []*types.Var // channels closed after the last write
	recvs     []*types.Var // channels received from before the first access
	reentrant bool
	firstPos  token.Pos
}

func (r *r1) publicationPass(cands []*types.Var) map[*types.Var]*pubResult {
	out := map[*types.Var]*pubResult{}
	if len(cands) == 0 {
		return out
	}
	c := r.c
	isCand := map[*types.Var]bool{}
	for _, v := range cands {
		isCand[v] = true
	}
	paths := map[*types.Var][]*pubPath{}
	var ctxs []*r1Context
	for x, vs := range r.ctxVars {
		for v := range vs {
			if isCand[v] {
				ctxs = append(ctxs, x)
				break
			}
		}
	}
	sort.Slice(ctxs, func(i, j int) bool { return ctxs[i].key < ctxs[j].key })
	for _, x := range ctxs {
		x := x
		cfg := &core.Config{EmitAccess: true, Follow: func(fn *types.Func) bool {
			d := c.Prog.Decl(fn)
			return d != nil && c.InScope(RelPkg(d.Pkg.PkgPath)) && (transfersLock(d) || publishesByClose(d))
		}}
		e := core.Entry{Decl: x.decl, Lit: x.lit, Pkg: x.pkg, Outer: x.outer, Locks: x.locks, Binds: x.binds, Name: x.key}
		c.Walk("R1d", cfg, e, func(p *core.Path) {
			type st struct {
				pp        *pubPath
				lastWrite int
			}
			per := map[*types.Var]*st{}
			recvSoFar := append([]*types.Var(nil), x.recvd...)
			election := false
			rmw := map[*types.Var]bool{} // locals holding the result of an atomic Swap/CompareAndSwap
			createdHere := map[types.Object]bool{}
			fresh := map[types.Object]bool{}
			for o := range x.fresh {
				fresh[o] = true
			}
			escaped := map[*types.Var]bool{}
			for i, ev := range p.Events {
				switch ev.Kind {
				case core.KBranch:
					if atomicElection(ev.Cond, ev.Frame) {
						election = true
					}
					for v := range rmw {
						if rmw[v] && mentions(ev.Cond, v, ev.Frame) {
							election = true
						}
					}
				case core.KCall, core.KGo:
					// an object handed to a call (as receiver root or argument) is no longer private to
					// this path — as in the first pass, where the callee's context decides more finely
					if ev.Builtin == "" && ev.Call != nil && !isLockOrAtomicMethod(ev.Callee) {
						info := ev.Frame.Info()
						var roots []ast.Expr
						roots = append(roots, ev.Call.Args...)
						if sel, ok := unparen(ev.Call.Fun).(*ast.SelectorExpr); ok {
							roots = append(roots, sel.X)
						}
						for _, e := range roots {
							if id := rootIdent(e); id != nil {
								if o := info.Uses[id]; o != nil && fresh[o] {
									if _, plainRecv := unparen(e).(*ast.Ident); !(plainRecv && ev.Callee != nil && r.c.Prog.Decl(ev.Callee) != nil && ev.Kind == core.KCall && !sharesObject(r.c.Prog.Decl(ev.Callee), recvOrParamObj(r.c.Prog.Decl(ev.Callee), ev.Call, e))) {
										fresh[o] = false
									}
								}
							}
						}
					}
				case core.KRecv:
					if !ev.NonBlocking || ev.InSelect {
						if v := varOf(ev.Chan, ev.Frame); v != nil {
							recvSoFar = append(recvSoFar, v.Origin())
						}
					}
				case core.KAssign:
					if !ev.FieldInit {
						if v := identVar(ev.Lhs, ev.Frame); v != nil && !v.IsField() {
							fresh[v] = ev.Rhs != nil && ev.RhsIdx < 0 && r.isFresh(ev.Rhs, ev.Frame.Info())
							createdHere[v] = fresh[v]
							rmw[v] = ev.Rhs != nil && ev.RhsIdx < 0 && isAtomicRMW(ev.Rhs, ev.Frame)
						}
					}
				case core.KFuncLitVal:
					if ev.Val.Kind == core.VFuncLit && r.escOf[ev.Val.Lit] == core.EscEarly {
						if d := c.Prog.EnclosingDecl(ev.Val.Lit.Pos()); d != nil {
							for _, v := range core.EscapesOf(c.Prog, d).Captured[ev.Val.Lit] {
								escaped[v] = true
							}
						}
					}
				case core.KAccess:
					v := accessVar(ev)
					if !isCand[v] {
						continue
					}
					if v.IsField() {
						if ev.Base != nil {
							if id := rootIdent(ev.Base); id != nil {
								info := ev.Frame.Info()
								o := info.Uses[id]
								if o != nil && fresh[o] {
									continue
								}
							}
						}
					} else {
						if id, ok := ev.Node.(*ast.Ident); ok && id.Pos() == v.Pos() {
							escaped[v] = false
							continue
						}
						counted := escaped[v] || escaped[baseVar(v)]
						for f := ev.Frame; f != nil && !counted; f = f.Parent {
							if f.Lit != nil && r.escOf[f.Lit] != core.EscNone && !(v.Pos() >= f.Lit.Pos() && v.Pos() < f.Lit.End()) {
								counted = true
							}
						}
						if !counted {
							continue
						}
					}
					s := per[v]
					if s == nil {
						s = &st{pp: &pubPath{ctx: x, recvs: append([]*types.Var(nil), recvSoFar...), firstPos: ev.Pos}, lastWrite: -1}
						per[v] = s
						// re-entrant writer context: a field, or a local written inside an escaping literal
						// (a field of an object this very function created is written once per object)
						s.pp.reentrant = v.IsField()
						if v.IsField() && ev.Base != nil {
							if id := rootIdent(ev.Base); id != nil {
								if o := ev.Frame.Info().Uses[id]; o != nil && createdHere[o] {
									s.pp.reentrant = false
								}
							}
						}
						for f := ev.Frame; f != nil; f = f.Parent {
							if f.Lit != nil && r.escOf[f.Lit] != core.EscNone && !(v.Pos() >= f.Lit.Pos() && v.Pos() < f.Lit.End()) {
								s.pp.reentrant = true
							}
						}
					}
					if ev.Write {
						if !s.pp.writes {
							s.pp.election = election
						}
						s.pp.writes = true
						s.lastWrite = i
					}
				}
			}
			for v, s := range per {
				if s.pp.writes {
					for _, ev := range p.Events[s.lastWrite+1:] {
						if ev.Kind == core.KClose {
							if cv := varOf(ev.Chan, ev.Frame); cv != nil {
								s.pp.closes = append(s.pp.closes, cv.Origin())
							}
						}
					}
				}
				paths[v] = append(paths[v], s.pp)
			}
		})
	}
	for _, v := range cands {
		pps := paths[v]
		res := &pubResult{}
		out[v] = res
		if len(pps) == 0 {
			res.why = "no access path found in the second pass"
			continue
		}
		if os.Getenv("DEBUG_R1D") != "" && strings.Contains(v.Name(), os.Getenv("DEBUG_R1D")) {
			for _, pp := range pps {
				fmt.Fprintf(os.Stderr, "R1D %s: ctx=%s writes=%v closes=%v recvs=%v reentrant=%v election=%v first=%s\n", v.Name(), pp.ctx.key, pp.writes, pp.closes, pp.recvs, pp.reentrant, pp.election, r.c.Prog.Pos(pp.firstPos))
			}
		}
		// candidate channels: closed on every writer path
		var chans map[*types.Var]bool
		for _, pp := range pps {
			if !pp.writes {
				continue
			}
			res.writerPaths++
			cur := map[*types.Var]bool{}
			for _, cv := range pp.closes {
				cur[cv] = true
			}
			if chans == nil {
				chans = cur
			} else {
				for k := range chans {
					if !cur[k] {
						delete(chans, k)
					}
				}
			}
		}
		if len(chans) == 0 {
			res.why = "no channel is closed after the last write on every writing path"
			continue
		}
		var chosen *types.Var
		for cv := range chans {
			good := true
			for _, pp := range pps {
				if pp.writes {
					continue
				}
				has := false
				for _, rv := range pp.recvs {
					if rv == cv {
						has = true
					}
				}
				if !has {
					good = false
					res.why = sprintf("access at %s is not behind a receive from %s", r.c.Prog.Pos(pp.firstPos), cv.Name())
				}
			}
			if good {
				chosen = cv
				break
			}
		}
		if chosen == nil {
			continue
		}
		ok := true
		for _, pp := range pps {
			if pp.writes {
				if pp.reentrant && !pp.election {
					ok = false
					res.why = sprintf("the writing path at %s can run more than once and is not guarded by an atomic Swap/CompareAndSwap election", r.c.Prog.Pos(pp.firstPos))
				}
				if pp.election {
					res.election = true
				}
			} else {
				res.readerPaths++
			}
		}
		if ok {
			res.ok = true
			res.why = ""
			res.chanName = chosen.Name()
		}
	}
	return out
}

func enclosingNameAt(c *Ctx, pos token.Pos) string {
	if d := c.Prog.EnclosingDecl(pos); d != nil {
		return core.FuncName(d.Obj)
	}
	return "?"
}

// recvOrParamObj: the callee's receiver or parameter object that the expression e (receiver or
// argument of call) is bound to.
func recvOrParamObj(d *core.FuncDecl, call *ast.CallExpr, e ast.Expr) types.Object {
	if d == nil {
		return nil
	}
	info := d.Pkg.TypesInfo
	if sel, ok := unparen(call.Fun).(*ast.SelectorExpr); ok && sel.X == e {
		if rc := d.Decl.Recv; rc != nil && len(rc.List) == 1 && len(rc.List[0].Names) == 1 {
			return info.Defs[rc.List[0].Names[0]]
		}
		return nil
	}
	i := 0
	for _, f := range d.Decl.Type.Params.List {
		for _, n := range f.Names {
			if i < len(call.Args) && call.Args[i] == e {
				return info.Defs[n]
			}
			i++
		}
		if len(f.Names) == 0 {
			i++
		}
	}
	return nil
}
