package rules

import (
	"go/ast"
	"go/token"
	"go/types"

	"utilverif/internal/core"
)

func init() {
	register(&Rule{ID: "Gstale", Text: gstaleText, Run: runGstale})
}

const gstaleText = `R1e check-then-act across critical sections. A local that was assigned, inside a critical section, from an expression reading a lock-guarded field (a length, an index, a position) is not used in a LATER critical section of the same lock as an index or slice bound of a guarded field: between the two sections other goroutines change the field, and the stale position drops, repeats or overruns their entries. (Using the sample in the section that took it, or re-sampling in the later section, is the accepted form.) Likewise a guarded field that was sampled into a local in one section is not written (assigned, element stored, deleted from, incremented) in a later section of the same lock that has not looked at the field again before the write.`

func runGstale(c *Ctx) {
	a := newAgg(c)
	defer a.flush()
	for _, d := range c.declsInScope() {
		d := d
		if d.Decl.Body == nil {
			continue
		}
		// prefilter: at least two lock operations in the body
		n := 0
		ast.Inspect(d.Decl.Body, func(x ast.Node) bool {
			if call, ok := x.(*ast.CallExpr); ok {
				if sel, ok := unparen(call.Fun).(*ast.SelectorExpr); ok {
					switch sel.Sel.Name {
					case "Lock", "RLock", "HoldLock", "HoldLockMaybeAsync":
						n++
					}
				}
			}
			return true
		})
		if n < 2 {
			continue
		}
		name := core.FuncName(d.Obj)
		c.Walk("R1e", &core.Config{Follow: func(*types.Func) bool { return false }, Unroll: 1}, core.Entry{Decl: d}, func(p *core.Path) {
			g := prepare(c, p)
			type sample struct {
				sec  int
				lock *types.Var
			}
			samples := map[*types.Var]sample{}
			check := func(i int, ev *core.Event, e ast.Expr) {
				if e == nil || g.sec[i] < 0 {
					return
				}
				lock := p.Events[g.sec[i]].Lock
				ast.Inspect(e, func(x ast.Node) bool {
					var base ast.Expr
					var idx []ast.Expr
					switch ix := x.(type) {
					case *ast.IndexExpr:
						base, idx = ix.X, []ast.Expr{ix.Index}
					case *ast.SliceExpr:
						base, idx = ix.X, []ast.Expr{ix.Low, ix.High, ix.Max}
					default:
						return true
					}
					fv := fieldVar(base, ev.Frame)
					if fv == nil {
						return true
					}
					if _, isMap := fv.Type().Underlying().(*types.Map); isMap {
						return true
					}
					for _, ie := range idx {
						if ie == nil {
							continue
						}
						ast.Inspect(ie, func(y ast.Node) bool {
							id, ok := y.(*ast.Ident)
							if !ok {
								return true
							}
							v, _ := ev.Frame.Info().ObjectOf(id).(*types.Var)
							if v == nil {
								return true
							}
							if sm, has := samples[v]; has && sm.lock == lock && sm.sec != g.sec[i] {
								a.note("R1e", name+"/position-not-reused-across-sections("+v.Name()+")", ix0(x), true, "",
									"the local "+v.Name()+" was computed from guarded state in the critical section at "+c.Prog.Pos(p.Events[sm.sec].Pos)+" and is used as an index/bound of "+core.FieldName(fv)+" in a later section of the same lock: entries other goroutines added or removed in between are dropped, repeated or overrun", p)
							} else if has && sm.lock == lock {
								a.note("R1e", name+"/position-not-reused-across-sections("+v.Name()+")", ix0(x), false,
									"a position computed from guarded state is used as an index only in the section that computed it", "", p)
							}
							return true
						})
					}
					return true
				})
			}
			// fields sampled into a local, by field name: the section (acquire index) and lock of the sample
			sampledF := map[string]sample{}
			mentionsF := func(e ast.Expr, fr *core.Frame, f string) bool {
				found := false
				if e != nil {
					ast.Inspect(e, func(x ast.Node) bool {
						if ex, ok := x.(ast.Expr); ok {
							if fv := fieldVar(ex, fr); fv != nil && core.FieldName(fv) == f {
								found = true
							}
						}
						return !found
					})
				}
				return found
			}
			// the guarded field an event writes (assignment, element store, delete, ++/--)
			writtenField := func(ev *core.Event) string {
				switch ev.Kind {
				case core.KAssign:
					if !ev.FieldInit && ev.Var != nil && ev.Var.IsField() && core.LockKindOf(ev.Var.Type()) == core.NotLock {
						return core.FieldName(ev.Var)
					}
				case core.KIncDec:
					if fv := fieldVar(ev.Lhs, ev.Frame); fv != nil {
						return core.FieldName(fv)
					}
				case core.KCall:
					if ev.Builtin == "delete" && len(ev.Call.Args) > 0 {
						if fv := fieldVar(ev.Call.Args[0], ev.Frame); fv != nil {
							return core.FieldName(fv)
						}
					}
				}
				return ""
			}
			for i, ev := range p.Events {
				// check-then-act split in two: a guarded field sampled into a local in one section is written in
				// a later section of the same lock that has not looked at the field again before the write
				if wf := writtenField(ev); wf != "" && g.sec[i] >= 0 {
					if sm, has := sampledF[wf]; has && sm.sec != g.sec[i] && sm.lock == p.Events[g.sec[i]].Lock {
						reread := false
						for j := g.sec[i]; j < i; j++ {
							b := p.Events[j]
							for _, e := range []ast.Expr{b.Cond, b.Rhs} {
								if mentionsF(e, b.Frame, wf) {
									reread = true
								}
							}
							if b.Call != nil && b.Builtin != "delete" {
								for _, arg := range b.Call.Args {
									if mentionsF(arg, b.Frame, wf) {
										reread = true
									}
								}
							}
						}
						if ev.Kind == core.KAssign && mentionsF(ev.Rhs, ev.Frame, wf) {
							reread = true
						}
						a.note("R1e", name+"/write-decided-in-its-own-section("+wf+")", ev.Pos, !reread,
							"a guarded field sampled in one section and written in a later one is looked at again in the section that writes it",
							"the field "+wf+" was sampled in the critical section at "+c.Prog.Pos(p.Events[sm.sec].Pos)+", the lock was released, and the field is written here in a later section that has not looked at it again: what other goroutines stored in between is overwritten or duplicated (check-then-act split in two)", p)
					}
				}
				if ev.Kind == core.KAssign && !ev.FieldInit && g.sec[i] >= 0 && ev.Rhs != nil {
					if lv := identVar(ev.Lhs, ev.Frame); lv != nil && !lv.IsField() {
						ast.Inspect(ev.Rhs, func(x ast.Node) bool {
							if ex, ok := x.(ast.Expr); ok {
								if fv := fieldVar(ex, ev.Frame); fv != nil && core.LockKindOf(fv.Type()) == core.NotLock {
									sampledF[core.FieldName(fv)] = sample{g.sec[i], p.Events[g.sec[i]].Lock}
								}
							}
							return true
						})
					}
				}
				switch ev.Kind {
				case core.KAssign:
					check(i, ev, ev.Rhs)
					check(i, ev, ev.Lhs)
					if ev.FieldInit {
						break
					}
					if v := identVar(ev.Lhs, ev.Frame); v != nil && !v.IsField() {
						delete(samples, v)
						if g.sec[i] >= 0 && ev.Rhs != nil && readsShared(c, ev.Rhs, ev.Frame) && isIntType(v.Type()) {
							samples[v] = sample{g.sec[i], p.Events[g.sec[i]].Lock}
						}
					}
				case core.KBranch:
					check(i, ev, ev.Cond)
				case core.KCall, core.KEnter:
					if ev.Call != nil {
						for _, arg := range ev.Call.Args {
							check(i, ev, arg)
						}
					}
				case core.KReturn:
					for _, r := range ev.Results {
						check(i, ev, r)
					}
				}
			}
		})
	}
}

func ix0(n ast.Node) token.Pos { return n.Pos() }
