package rules

import (
	"go/ast"
	"go/token"
	"go/types"

	"utilverif/internal/core"
)

func init() {
	register(&Rule{ID: "Gstale", Text: gstaleText, Run: runGstale})
}

const gstaleText = `R1e check-then-act across critical sections. A local that was assigned, inside a critical section, from an expression reading a lock-guarded field (a length, an index, a position) is not used in a LATER critical section of the same lock as an index or slice bound of a guarded field: between the two sections other goroutines change the field, and the stale position drops, repeats or overruns their entries. (Using the sample in the section that took it, or re-sampling in the later section, is the accepted form.)`

func runGstale(c *Ctx) {
	a := newAgg(c)
	defer a.flush()
	for _, d := range c.declsInScope() {
		d := d
		if d.Decl.Body == nil {
			continue
		}
		// prefilter: at least two lock operations in the body
		n := 0
		ast.Inspect(d.Decl.Body, func(x ast.Node) bool {
			if call, ok := x.(*ast.CallExpr); ok {
				if sel, ok := unparen(call.Fun).(*ast.SelectorExpr); ok {
					switch sel.Sel.Name {
					case "Lock", "RLock", "HoldLock", "HoldLockMaybeAsync":
						n++
					}
				}
			}
			return true
		})
		if n < 2 {
			continue
		}
		name := core.FuncName(d.Obj)
		c.Walk("R1e", &core.Config{Follow: func(*types.Func) bool { return false }, Unroll: 1}, core.Entry{Decl: d}, func(p *core.Path) {
			g := prepare(c, p)
			type sample struct {
				sec  int
				lock *types.Var
			}
			samples := map[*types.Var]sample{}
			check := func(i int, ev *core.Event, e ast.Expr) {
				if e == nil || g.sec[i] < 0 {
					return
				}
				lock := p.Events[g.sec[i]].Lock
				ast.Inspect(e, func(x ast.Node) bool {
					var base ast.Expr
					var idx []ast.Expr
					switch ix := x.(type) {
					case *ast.IndexExpr:
						base, idx = ix.X, []ast.Expr{ix.Index}
					case *ast.SliceExpr:
						base, idx = ix.X, []ast.Expr{ix.Low, ix.High, ix.Max}
					default:
						return true
					}
					fv := fieldVar(base, ev.Frame)
					if fv == nil {
						return true
					}
					if _, isMap := fv.Type().Underlying().(*types.Map); isMap {
						return true
					}
					for _, ie := range idx {
						if ie == nil {
							continue
						}
						ast.Inspect(ie, func(y ast.Node) bool {
							id, ok := y.(*ast.Ident)
							if !ok {
								return true
							}
							v, _ := ev.Frame.Info().ObjectOf(id).(*types.Var)
							if v == nil {
								return true
							}
							if sm, has := samples[v]; has && sm.lock == lock && sm.sec != g.sec[i] {
								a.note("R1e", name+"/position-not-reused-across-sections("+v.Name()+")", ix0(x), true, "",
									"the local "+v.Name()+" was computed from guarded state in the critical section at "+c.Prog.Pos(p.Events[sm.sec].Pos)+" and is used as an index/bound of "+core.FieldName(fv)+" in a later section of the same lock: entries other goroutines added or removed in between are dropped, repeated or overrun", p)
							} else if has && sm.lock == lock {
								a.note("R1e", name+"/position-not-reused-across-sections("+v.Name()+")", ix0(x), false,
									"a position computed from guarded state is used as an index only in the section that computed it", "", p)
							}
							return true
						})
					}
					return true
				})
			}
			for i, ev := range p.Events {
				switch ev.Kind {
				case core.KAssign:
					check(i, ev, ev.Rhs)
					check(i, ev, ev.Lhs)
					if ev.FieldInit {
						break
					}
					if v := identVar(ev.Lhs, ev.Frame); v != nil && !v.IsField() {
						delete(samples, v)
						if g.sec[i] >= 0 && ev.Rhs != nil && readsShared(c, ev.Rhs, ev.Frame) && isIntType(v.Type()) {
							samples[v] = sample{g.sec[i], p.Events[g.sec[i]].Lock}
						}
					}
				case core.KBranch:
					check(i, ev, ev.Cond)
				case core.KCall, core.KEnter:
					if ev.Call != nil {
						for _, arg := range ev.Call.Args {
							check(i, ev, arg)
						}
					}
				case core.KReturn:
					for _, r := range ev.Results {
						check(i, ev, r)
					}
				}
			}
		})
	}
}

func ix0(n ast.Node) token.Pos { return n.Pos() }
