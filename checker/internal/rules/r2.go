package rules

import (
	"go/ast"
	"go/token"
	"go/types"
	"sort"

	"utilverif/internal/core"
)

// R2 — waiter discipline on Broadcast (DESIGN.md §3 R2). This file: discovery of waiters, R2a
// (sample and subscribe in one section), R2c (a retry needs wake evidence), R2f (every blocking
// site listens to every interruption source of the function).

func init() {
	register(&Rule{ID: "R2", Text: r2Text, Run: runR2})
}

const r2Text = `R2 waiter discipline. A waiter is a function that blocks on a channel W obtained from getWaitCh() inside a critical section of a Broadcast lock L. R2a: between the previous wait (or the function start) and a wait on W, no earlier section of L than the one that assigned W hands out a sample (a captured local it assigns, or the result of the inlined function containing it) that is still read before the wait — the decision to wait and the subscription come from the same section. R2b: every path through a section of L that writes a field occurring in the blocking predicate of some waiter of L and does not call broadcast() cannot turn that predicate from blocked to grantable (finite truth-table evaluation over the predicate's boolean, zero-test and nil-test atoms; a write of the value the variable was just found to hold, and the normalisation of a context found dead to nil, change nothing; which object a pointer refers to is not decided). R2c: in a waiter every cycle of a for-loop passes through a successful receive. R2d: the broadcast/getWaitCh parameters of a section callback are only called or handed to a synchronously called same-package helper. R2e: inside Broadcast, broadcast closes the current channel and forgets it in the same section; getWaitCh returns a non-nil channel. R2f: every blocking site of a function that takes a context / error channel / cancel channel parameter listens to each of them.`

var r2Scope = []string{"broadcast", "csync", "ccontainer", "ccall", "conc", "routine", "refcount", "promise"}

type r2Section struct {
	lock     *types.Var
	acq, rel int // event indices
	frame    *core.Frame
}

type r2State struct {
	c     *Ctx
	agg   map[string]*Obligation
	order []string
	// waiter functions found (entry name -> number of getWaitCh sites)
	waiters   map[string]int
	getWaitCh map[string]bool
	// functions whose error a library caller compares with context.Canceled (R17)
	cmpCanceled map[*types.Func]string
	// the implementations of broadcast()/getWaitCh() inside package broadcast
	bm, gm *types.Func
	// R17: the forms in which each function reports a cancelled wait
	cancelForms map[string]map[string]token.Pos
	cancelOrder []string
	// R17: library functions whose error (obtained by handing them our context) a function returns
	cancelDelegates map[string]map[string]bool
}

func (s *r2State) note(rule, construct string, pos token.Pos, bad bool, okDetail, badDetail string, p *core.Path) {
	key := rule + "|" + construct
	o := s.agg[key]
	if o == nil {
		o = &Obligation{Rule: rule, Construct: construct, Pos: s.c.Prog.Pos(pos), Verdict: Discharged, Detail: okDetail}
		s.agg[key] = o
		s.order = append(s.order, key)
	}
	o.Paths++
	if bad && o.Verdict == Discharged {
		o.Verdict = Violated
		o.Detail = badDetail
		o.Pos = s.c.Prog.Pos(pos)
		if p != nil {
			o.Witness = s.c.Prog.Witness(p)
		}
	}
}

// entriesOf lists the declared functions of the scope and their escaping literals as walk entries.
func entriesOf(c *Ctx) []core.Entry {
	var out []core.Entry
	for _, d := range c.declsInScope() {
		out = append(out, core.Entry{Decl: d, Name: core.FuncName(d.Obj)})
		ei := core.EscapesOf(c.Prog, d)
		var lits []*ast.FuncLit
		for l, e := range ei.Esc {
			if e != core.EscNone {
				lits = append(lits, l)
			}
		}
		sort.Slice(lits, func(i, j int) bool { return lits[i].Pos() < lits[j].Pos() })
		for i, l := range lits {
			out = append(out, core.Entry{Lit: l, Pkg: d.Pkg, Outer: d, Name: sprintf("%s.func%d", core.FuncName(d.Obj), i+1)})
		}
	}
	return out
}

func samePkgFollow(pkgPath string) func(*types.Func) bool {
	return func(f *types.Func) bool { return f.Pkg() != nil && f.Pkg().Path() == pkgPath }
}

// sectionFollow inlines same-package functions that (transitively, one level) contain a
// Broadcast section, i.e. the helpers through which a waiter may sample guarded state.
func sectionFollow(c *Ctx, pkgPath string) func(*types.Func) bool {
	cache := map[*types.Func]bool{}
	return func(f *types.Func) bool {
		if f.Pkg() == nil || f.Pkg().Path() != pkgPath {
			return false
		}
		if v, ok := cache[f]; ok {
			return v
		}
		d := c.Prog.Decl(f)
		has := false
		if sig, ok := f.Type().(*types.Signature); ok {
			// a helper that is handed getWaitCh / broadcast runs inside the caller's section
			for i := 0; i < sig.Params().Len(); i++ {
				if isWaitChGetter(sig.Params().At(i).Type()) {
					has = true
				}
				// … or the wait channel itself (the blocking select extracted into a function)
				if ch, ok := sig.Params().At(i).Type().Underlying().(*types.Chan); ok && !f.Exported() {
					if st, ok := ch.Elem().Underlying().(*types.Struct); ok && st.NumFields() == 0 {
						has = true
					}
				}
			}
		}
		if d != nil && !has {
			ast.Inspect(d.Decl.Body, func(n ast.Node) bool {
				if call, ok := n.(*ast.CallExpr); ok {
					if name, _ := core.IsHoldLockCall(d.Pkg.TypesInfo, call); name != "" {
						has = true
					}
				}
				return !has
			})
		}
		cache[f] = has
		return has
	}
}

func entryPkgPath(e core.Entry) string {
	if e.Decl != nil {
		return e.Decl.Pkg.PkgPath
	}
	return e.Pkg.PkgPath
}

func entryPos(e core.Entry) token.Pos {
	if e.Decl != nil {
		return e.Decl.Decl.Pos()
	}
	return e.Lit.Pos()
}

func runR2(c *Ctx) {
	if c.Scope == nil {
		c.Scope = map[string]bool{}
		for _, p := range r2Scope {
			c.Scope[p] = true
		}
	}
	s := &r2State{c: c, agg: map[string]*Obligation{}, waiters: map[string]int{}, getWaitCh: map[string]bool{}}
	if c.Prog.LookupFunc("broadcast", "Broadcast", "HoldLock") != nil {
		s.bm, s.gm = sectionMethods(c)
	}
	for _, e := range entriesOf(c) {
		e := e
		cfg := &core.Config{Follow: sectionFollow(c, entryPkgPath(e)), EmitAccess: true}
		c.Walk("R2", cfg, e, func(p *core.Path) { s.waiterPath(e, p) })
	}
	runR2b(c, s)
	runR2d(c, s)
	runR2e(c, s)
	for _, k := range s.order {
		c.Add(s.agg[k])
	}
	var ws []string
	for w, n := range s.waiters {
		ws = append(ws, sprintf("%s(%d)", w, n))
	}
	sort.Strings(ws)
	c.Notes = append(c.Notes, sprintf("R2: %d waiter functions, %d getWaitCh sites: %v", len(s.waiters), len(s.getWaitCh), ws))
}

// selectHasArmOn reports whether the select statement has a receive arm on variable w.
func selectHasArmOn(sel *ast.SelectStmt, w *types.Var, fr *core.Frame) bool {
	for _, cl := range sel.Body.List {
		cc := cl.(*ast.CommClause)
		var x ast.Expr
		switch comm := cc.Comm.(type) {
		case *ast.ExprStmt:
			x = comm.X
		case *ast.AssignStmt:
			x = comm.Rhs[0]
		}
		if u, ok := unparen(x).(*ast.UnaryExpr); ok && u.Op == token.ARROW {
			if iv(u.X, fr) == w {
				return true
			}
		}
	}
	return false
}

// waiterPath applies R2a and R2c to one path.
func (s *r2State) waiterPath(e core.Entry, p *core.Path) {
	c := s.c
	// sections and W assignments
	var sections []*r2Section
	open := map[*types.Var]*r2Section{}
	type wInfo struct {
		sec *r2Section
		idx int
	}
	wvars := map[*types.Var]wInfo{} // wait-channel local -> section that assigned it
	wt := newWTrack()
	getSec := map[int]*r2Section{}
	windowStart := 0
	// locals assigned per section: local -> last assignment index, by section
	type sample struct {
		v   *types.Var
		idx int
		sec *r2Section
	}
	var samples []sample
	lastAssign := map[*types.Var]int{}
	reads := map[*types.Var][]int{}
	hasWaiter := false
	inBroadcast := RelPkg(entryPkgPath(e)) == "broadcast"
	var ctxParam *types.Var
	if e.Decl != nil {
		ctxParam = paramWhere(e.Decl, isContextType)
	}
	secOf := func(i int) *r2Section {
		var best *r2Section
		for _, sc := range sections {
			if sc.acq <= i && (sc.rel < 0 || i <= sc.rel) {
				best = sc
			}
		}
		return best
	}
	checkWait := func(i int, ev *core.Event, w *types.Var) {
		wi, ok := wvars[w]
		if !ok {
			return
		}
		hasWaiter = true
		S := wi.sec
		construct := enclosingName(c, ev) + "/wait(" + w.Name() + ")"
		bad := false
		why := ""
		for _, sm := range samples {
			A := sm.sec
			if A == S || A.lock != S.lock || A.rel < 0 {
				continue
			}
			if !(A.acq > windowStart && A.rel < S.acq) {
				continue
			}
			// still the current value of the local, and read after A before the wait
			if lastAssign[sm.v] != sm.idx {
				continue
			}
			for _, r := range reads[sm.v] {
				if r > A.rel && r < i {
					bad = true
					why = sprintf("%s is sampled in the section at %s, but the wait channel %s is obtained in a later section at %s; %s is still used at %s: a broadcast between the two sections is missed",
						sm.v.Name(), c.Prog.Pos(p.Events[A.acq].Pos), w.Name(), c.Prog.Pos(p.Events[S.acq].Pos), sm.v.Name(), c.Prog.Pos(p.Events[r].Pos))
				}
			}
		}
		s.note("R2a", construct, ev.Pos, bad, "the state sampled for the decision to wait and the wait channel come from the same critical section on every path", why, p)
	}
	for i, ev := range p.Events {
		// inside package broadcast: a direct call of the getWaitCh implementation under the mutex
		if inBroadcast && s.gm != nil && (ev.Kind == core.KEnter || ev.Kind == core.KCall) && ev.Callee != nil && ev.Callee.Origin() == s.gm && ev.Call != nil {
			var sc *r2Section
			for _, o := range open {
				if sc == nil || o.acq > sc.acq {
					sc = o
				}
			}
			if sc != nil {
				wt.onGet(i, ev)
				getSec[i] = sc
				s.getWaitCh[c.Prog.Pos(ev.Pos)] = true
			}
		}
		switch ev.Kind {
		case core.KAcquire:
			// (inside package broadcast a section may be the mutex taken by hand)
			if core.LockKindOf(ev.Lock.Type()) == core.BcastLock || inBroadcast {
				sc := &r2Section{lock: ev.Lock, acq: i, rel: -1, frame: ev.Frame}
				sections = append(sections, sc)
				open[ev.Lock] = sc
			}
		case core.KRelease:
			if sc := open[ev.Lock]; sc != nil {
				sc.rel = i
				delete(open, ev.Lock)
			}
		case core.KGetWaitCh:
			wt.onGet(i, ev)
			getSec[i] = open[ev.Lock]
			s.getWaitCh[c.Prog.Pos(ev.Pos)] = true

		case core.KAssign:
			if ev.FieldInit {
				break
			}
			v := identVar(ev.Lhs, ev.Frame)
			if v == nil || v.IsField() {
				break
			}
			lastAssign[v] = i
			// W = getWaitCh()
			if gi, ok := wt.onAssign(v, ev); ok {
				if sc := getSec[gi]; sc != nil {
					wvars[v] = wInfo{sec: sc, idx: i}
				}
			} else {
				delete(wvars, v)
			}
			// a sample: assigned inside a section to a local declared outside the section literal,
			// or assigned from the result of an inlined function that contains a section
			if sc := secOf(i); sc != nil && sc.rel < 0 {
				if fr := sc.frame; fr != nil {
					samples = append(samples, sample{v: v, idx: i, sec: sc})
				}
			} else if ev.RetEv != nil {
				// find a closed section inside the frame that just returned
				for j := len(sections) - 1; j >= 0; j-- {
					sc := sections[j]
					if sc.rel >= 0 && sc.rel < i && frameWithin(p.Events[sc.acq].Frame, ev.RetEv.Frame) {
						samples = append(samples, sample{v: v, idx: i, sec: sc})
						break
					}
				}
			}
		case core.KAccess:
			if av := accessVar(ev); !ev.Write && !av.IsField() {
				reads[av] = append(reads[av], i)
			}
		case core.KSelect:
			sel, ok := ev.Node.(*ast.SelectStmt)
			if !ok || ev.HasDefault {
				break
			}
			listens := false
			for w := range wvars {
				if selectHasArmOn(sel, w, ev.Frame) {
					checkWait(i, ev, w)
					listens = true
				}
			}
			if len(wvars) > 0 && ev.Frame.Parent == nil {
				s.note("R2a", enclosingName(c, ev)+"/blocking-site:select"+c.ordinal(ev.Node)+"/listens-to-subscription", ev.Pos, !listens,
					"a subscribed waiter's blocking select has an arm on its wait channel",
					"after subscribing (getWaitCh) the function blocks in a select that has no arm on the wait channel: a state change broadcast while it is blocked here is not noticed", p)
			}
			windowStart = i
		case core.KRecv:
			if !ev.InSelect {
				if w := iv(ev.Chan, ev.Frame); w != nil {
					checkWait(i, ev, w)
				}
				windowStart = i
			}
		case core.KCall:
			// W handed to a blocking callee (AwaitWithCancelCh(ctx, waitCh))
			handsW, handsCtx := false, false
			for _, a := range ev.Call.Args {
				if w := identVar(a, ev.Frame); w != nil {
					if _, ok := wvars[w]; ok {
						checkWait(i, ev, w)
						windowStart = i
						handsW = true
					}
					if ctxParam != nil && w == ctxParam {
						handsCtx = true
					}
				}
			}
			// a call that is handed the function's own context may block for as long as that context
			// lives: a subscribed waiter hands it the wait channel too
			if handsCtx && len(wvars) > 0 && ev.Frame.Parent == nil && ev.Builtin == "" && ev.Callee != nil && (ev.Callee.Pkg() == nil || ev.Callee.Pkg().Path() != "context") {
				s.note("R2a", enclosingName(c, ev)+"/blocking-site:"+c.callOrdinal(ev.Call, ev.Frame.Info())+"/listens-to-subscription", ev.Pos, !handsW,
					"a subscribed waiter that blocks in a call hands that call its wait channel",
					"after subscribing (getWaitCh) the function blocks in a call that is handed its context but not the wait channel: a state change broadcast while it is blocked there is not noticed", p)
			}
		case core.KGo:
			if ev.FunVal.Kind == core.VFuncLit {
				for w := range wvars {
					if litUses(ev.FunVal.Lit, w, ev.Frame.Info()) {
						checkWait(i, ev, w)
					}
				}
			}
		}
	}
	// a waiter that returns a value with a nil error decided that in its last subscribing section: it does
	// not enter the lock again before returning (a value re-read later was never checked against the
	// wait condition)
	if p.End == core.EndReturn && len(p.Events) > 0 && e.Decl != nil {
		last := p.Events[len(p.Events)-1]
		sig, _ := e.Decl.Obj.Type().(*types.Signature)
		if last.Kind == core.KReturn && last.Frame.Parent == nil && sig != nil && sig.Results().Len() >= 2 && len(last.Results) == sig.Results().Len() &&
			isErrorType(sig.Results().At(sig.Results().Len()-1).Type()) && isNilExpr(last.Results[len(last.Results)-1], last.Frame) {
			var sub *r2Section
			for gi, sc := range getSec {
				if sc != nil && (sub == nil || sc.acq > sub.acq) && gi >= 0 {
					sub = sc
				}
			}
			if sub != nil {
				var first, later *r2Section
				for _, sc := range sections {
					if sc.lock == sub.lock && sc.acq > windowStart {
						if first == nil {
							first = sc
						} else {
							later = sc
						}
					}
				}
				why := ""
				if later != nil {
					why = sprintf("between its last wait and its successful return the function enters the lock at %s and again at %s: what it returns can be a value read in the second section, which was never checked against the wait condition (or the check was made on a value that is no longer current)",
						c.Prog.Pos(p.Events[first.acq].Pos), c.Prog.Pos(p.Events[later.acq].Pos))
				}
				s.note("R2a", e.Name+"/success-decided-in-one-section", e.Decl.Decl.Pos(), later != nil,
					"between its last wait and a successful return a waiter enters the lock once: the section that samples the state it returns", why, p)
			}
		}
	}
	if !hasWaiter {
		return
	}
	s.waiters[e.Name]++
	// R2c: every cycle passes through a successful receive
	type loopSeg struct {
		stmt  ast.Node
		start int
	}
	var stack []loopSeg
	recvSince := func(from, to int) bool {
		for _, ev := range p.Events[from:to] {
			if ev.Kind == core.KRecv {
				return true
			}
		}
		return false
	}
	for i, ev := range p.Events {
		if ev.Kind != core.KLoop {
			continue
		}
		if _, isFor := ev.Node.(*ast.ForStmt); !isFor {
			continue
		}
		if ev.Frame != p.Events[0].Frame && ev.Frame.Parent != nil {
			// loops of inlined helpers are judged when the helper is walked as an entry
			continue
		}
		// close the previous iteration of the same loop
		for len(stack) > 0 && stack[len(stack)-1].stmt != ev.Node {
			stack = stack[:len(stack)-1]
		}
		if len(stack) > 0 {
			seg := stack[len(stack)-1]
			bad := !recvSince(seg.start, i)
			s.note("R2c", e.Name+"/for"+c.ordinal(ev.Node), ev.Node.Pos(), bad,
				"every way around the loop consumes an event (a successful receive)",
				"the loop can go around without having received anything: the waiter re-samples (and may spin) without wake-up evidence", p)
			stack[len(stack)-1].start = i
		} else {
			stack = append(stack, loopSeg{stmt: ev.Node, start: i})
		}
	}
	if p.End == core.EndLoopCut && len(stack) > 0 {
		seg := stack[len(stack)-1]
		bad := !recvSince(seg.start, len(p.Events))
		s.note("R2c", e.Name+"/for"+c.ordinal(seg.stmt), seg.stmt.Pos(), bad,
			"every way around the loop consumes an event (a successful receive)",
			"the loop can go around without having received anything: the waiter re-samples (and may spin) without wake-up evidence", p)
	}
}

func frameWithin(f, anc *core.Frame) bool {
	for ; f != nil; f = f.Parent {
		if f == anc {
			return true
		}
	}
	return false
}

func litUses(lit *ast.FuncLit, v *types.Var, info *types.Info) bool {
	found := false
	ast.Inspect(lit.Body, func(n ast.Node) bool {
		if id, ok := n.(*ast.Ident); ok && info.Uses[id] == types.Object(v) {
			found = true
		}
		return !found
	})
	return found
}

// isWaitChGetter: func() <-chan struct{}
func isWaitChGetter(t types.Type) bool {
	sig, ok := t.Underlying().(*types.Signature)
	if !ok || sig.Params().Len() != 0 || sig.Results().Len() != 1 {
		return false
	}
	ch, ok := sig.Results().At(0).Type().Underlying().(*types.Chan)
	if !ok {
		return false
	}
	st, ok := ch.Elem().Underlying().(*types.Struct)
	return ok && st.NumFields() == 0
}

// retResult is what an inlined call's return event yields at result index idx: the expression of the
// return statement, or the named result variable of a bare return.
func retResult(ret *core.Event, idx int) (ast.Expr, *types.Var) {
	if idx < 0 {
		idx = 0
	}
	if idx < len(ret.Results) {
		e := ret.Results[idx]
		return e, identVar(e, ret.Frame)
	}
	ft := ret.Frame.FuncType()
	if ft == nil || ft.Results == nil {
		return nil, nil
	}
	k := 0
	for _, f := range ft.Results.List {
		for _, n := range f.Names {
			if k == idx {
				v, _ := ret.Frame.Info().Defs[n].(*types.Var)
				return n, v
			}
			k++
		}
	}
	return nil, nil
}

// wTrack follows wait channels (results of getWaitCh()) through local assignments and through the
// results of inlined helpers, so that "wait = getWaitCh()" may live in a helper that returns it.
type wTrack struct {
	gets   map[*ast.CallExpr]int // getWaitCh() call -> index of its latest KGetWaitCh event
	origin map[*types.Var]int    // local -> KGetWaitCh event index its value came from
}

func newWTrack() *wTrack {
	return &wTrack{gets: map[*ast.CallExpr]int{}, origin: map[*types.Var]int{}}
}

func (t *wTrack) onGet(i int, ev *core.Event) { t.gets[ev.Call] = i }

// onAssign: the assignment event gives local v a wait channel; returns the KGetWaitCh event index.
func (t *wTrack) onAssign(v *types.Var, ev *core.Event) (int, bool) {
	e := ev.Rhs
	var src *types.Var
	if ev.RetEv != nil {
		e, src = retResult(ev.RetEv, ev.RhsIdx)
	} else if e != nil && ev.RhsIdx < 0 {
		src = identVar(e, ev.Frame)
	}
	if e != nil {
		if call, ok := unparen(e).(*ast.CallExpr); ok {
			if gi, ok := t.gets[call]; ok {
				t.origin[v] = gi
				return gi, true
			}
		}
	}
	if src != nil && src != v {
		if gi, ok := t.origin[src]; ok {
			t.origin[v] = gi
			return gi, true
		}
	}
	delete(t.origin, v)
	return 0, false
}
