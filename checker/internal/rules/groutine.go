package rules

import (
	"go/ast"
	"go/token"
	"go/types"
	"sort"
	"strings"

	"golang.org/x/tools/go/types/typeutil"

	"utilverif/internal/core"
)

func init() {
	register(&Rule{ID: "Groutine", Text: groutineText, Run: func(c *Ctx) { runSupervisor(c, "routine") }})
	register(&Rule{ID: "Gkeyed", Text: groutineText, Run: func(c *Ctx) { runSupervisor(c, "keyed") }})
}

const groutineText = `R4/R5/R12 supervisors (routine, keyed). start: the goroutine is spawned only under forceRestart || !success, after err/success/exited were reset, after the previous cancel func was called (or shown nil), with a context derived from start's ctx argument, which at every call site is the container's current context; forceRestart is a constant at every call site and true only in restartRoutineLocked and the retry timer. execute: exit status, retry arming and exit callbacks happen only under r.ctx == ctx; the retry timer is armed exactly when retry is configured, the instance failed, is still registered and the back-off is not Stop; success resets the back-off. Timer callbacks act only after re-validating registration (and context, exited / pending-removal flag) under the owner lock. R4: a record's cancel func is called (or shown nil, or the instance is shown to have exited with an error) before its slot is cleared/overwritten, before delete, and before a different root context is stored. R5a: an API function that stops a retry timer starts, detaches or re-arms the record on that path, or has no context. R6b: SetKey and SyncKeys cancel a pending delayed removal of a record they keep. keyed.remove deletes at once exactly when there is no delay or the routine failed. KeyedRefCount: AddKeyRef inserts and registers under one lock; Release removes the key exactly when the last reference goes; references are released once (atomic prologue).`

type sup struct {
	c      *Ctx
	a      *agg
	pkg    string
	rec    string // pkg.runningRoutine
	owner  string // container type name
	lock   string
	ctxFld string // container ctx field
	slot   string // container slot field
}

func (s *sup) f(name string) string { return s.pkg + ".runningRoutine." + name }

// recvRole is the role of a method's receiver variable.
func recvRole(c *Ctx, d *core.FuncDecl) string {
	if d.Decl.Recv != nil && len(d.Decl.Recv.List) == 1 && len(d.Decl.Recv.List[0].Names) == 1 {
		if v, ok := d.Pkg.TypesInfo.Defs[d.Decl.Recv.List[0].Names[0]].(*types.Var); ok {
			return c.Role(v)
		}
	}
	return "?recv"
}

func paramRole(c *Ctx, d *core.FuncDecl, pred func(types.Type) bool) string {
	if v := paramWhere(d, pred); v != nil {
		return c.Role(v)
	}
	return "?param"
}

func runSupervisor(c *Ctx, pkg string) {
	s := &sup{c: c, a: newAgg(c), pkg: pkg}
	defer s.a.flush()
	if pkg == "routine" {
		s.owner, s.lock, s.ctxFld, s.slot = "RoutineContainer", "routine.RoutineContainer.bcast", "routine.RoutineContainer.ctx", "routine.RoutineContainer.routine"
	} else {
		s.owner, s.lock, s.ctxFld, s.slot = "Keyed", "keyed.Keyed.mtx", "keyed.Keyed.ctx", "keyed.Keyed.routines"
	}
	start := c.declByName("R12", pkg, "runningRoutine", "start")
	exec := c.declByName("R12", pkg, "runningRoutine", "execute")
	if start == nil || exec == nil {
		return
	}
	s.start(start, exec)
	s.execute(exec, start)
	s.api(start, exec)
	s.retryOption()
	if pkg == "routine" {
		s.routineExtras()
	}
	if pkg == "keyed" {
		s.keyedExtras()
	}
}

func (s *sup) start(start, exec *core.FuncDecl) {
	c, a := s.c, s.a
	name := core.FuncName(start.Obj)
	pv := paramVars(start)
	c.Walk("R12", &core.Config{Follow: func(f *types.Func) bool {
		return f.Pkg() != nil && RelPkg(f.Pkg().Path()) == s.pkg && f.Origin() != exec.Obj
	}}, core.Entry{Decl: start}, func(p *core.Path) {
		g := prepare(c, p)
		reset := map[string]bool{}
		cancelled := false
		var ctxFrom *types.Var
		derived := map[*types.Var]*types.Var{}
		for i, ev := range p.Events {
			for _, f := range []string{"err", "success", "exited"} {
				want := "false"
				if f == "err" {
					want = "nil"
				}
				if assignsField(ev, s.f(f), want) {
					reset[f] = true
				}
			}
			if g.callsFieldAt(i, s.f("ctxCancel")) {
				cancelled = true
			}
			if ev.Kind == core.KAssign && ev.Rhs != nil && ev.RhsIdx <= 0 {
				// x (a local or the record's ctx field) = context.WithCancel(<ctx>) …
				if call, ok := unparen(ev.Rhs).(*ast.CallExpr); ok && len(call.Args) > 0 {
					if f, _ := typeutil.Callee(ev.Frame.Info(), call).(*types.Func); f != nil && f.Pkg() != nil && f.Pkg().Path() == "context" {
						src := identVar(call.Args[0], ev.Frame)
						if ev.Var != nil && core.FieldName(ev.Var) == s.f("ctx") {
							ctxFrom = src
						} else if lv := identVar(ev.Lhs, ev.Frame); lv != nil {
							derived[lv] = src
						}
					}
				}
				// … or r.ctx = <such a local>
				if ev.Var != nil && core.FieldName(ev.Var) == s.f("ctx") {
					if lv := identVar(ev.Rhs, ev.Frame); lv != nil && derived[lv] != nil {
						ctxFrom = derived[lv]
					}
				}
			}
			if ev.Kind != core.KGo || ev.Callee != exec.Obj {
				continue
			}
			a.requireGuard("R12", name+"/go-execute", g, i, false, for_(fld(paramRole(c, start, isBoolType)), fnot(fld(s.f("success")))), "spawning the routine")
			a.note("R12", name+"/go-execute/status-reset", ev.Pos, !(reset["err"] && reset["success"] && reset["exited"]),
				"err, success and exited are reset before the instance is spawned",
				"the instance is spawned without resetting err/success/exited: callers that read the status of the running instance (SetContext's rr.err == nil test, WaitExited) see the previous attempt's result", p)
			ok, _ := implies(g.litsBefore(i, false), eq("nil", s.f("ctxCancel")))
			a.note("R4", name+"/go-execute/cancel-previous", ev.Pos, !(cancelled || ok),
				"the previous instance's cancel func is called (or nil) before a new instance is spawned",
				"a new instance is spawned on a path that neither called the previous cancel func nor showed it nil: the superseded instance keeps a live context", p)
			a.note("R12", name+"/go-execute/derived-context", ev.Pos, !(len(pv) > 0 && ctxFrom != nil && ctxFrom == pv[0]),
				"the instance context is context.WithCancel of start's ctx argument",
				"the instance context is not derived from start's ctx argument", p)
		}
	})
	a.expect("R12", name+"/go-execute", 1, "go execute in start")
}

func (s *sup) execute(exec, start *core.FuncDecl) {
	c, a := s.c, s.a
	name := core.FuncName(exec.Obj)
	current := eq(paramRole(c, exec, isContextType), s.f("ctx"))
	self := recvRole(c, exec)
	regd := eq(self, s.slot)
	if s.pkg == "keyed" {
		regd = eq("keyed.Keyed.routines[keyed.runningRoutine.key]", self)
	}
	dur := "?dur"
	if v := pkgAssignedFromCall(c, s.pkg, 0, func(call *ast.CallExpr) bool { _, ok := callSel(call, "NextBackOff"); return ok }); v != nil {
		dur = c.Role(v)
	}
	retryBo := s.f("retryBo")
	if s.pkg == "routine" {
		retryBo = "routine.RoutineContainer.retryBo"
	}
	armWant := fand(fand(fnot(eq("nil", retryBo)), fnot(fld(s.f("success")))), fand(regd, fnot(eq("-1", dur))))
	type armPath struct {
		lits  []*r2Lit
		armed bool
		p     *core.Path
		pos   token.Pos
	}
	var arms []armPath
	resetJudged := map[token.Pos]bool{}
	defer func() {
		// who may reset the back-off: only the exit path of a successful current instance (judged above);
		// a Reset anywhere else in the package (start, the API functions, the retry timer) makes every
		// restart begin from the initial interval again and a bounded back-off never reach Stop
		for _, d := range pkgDecls(c, s.pkg) {
			d := d
			ast.Inspect(d.Decl.Body, func(n ast.Node) bool {
				call, ok := n.(*ast.CallExpr)
				if !ok {
					return true
				}
				sel, ok := unparen(call.Fun).(*ast.SelectorExpr)
				if !ok || sel.Sel.Name != "Reset" || len(call.Args) != 0 {
					return true
				}
				fv := fieldVar(sel.X, &core.Frame{Pkg: d.Pkg})
				if fv == nil || core.FieldName(fv) != retryBo {
					return true
				}
				a.note("R5c", s.pkg+"/back-off-reset-only-by-successful-exit", call.Pos(), !resetJudged[call.Pos()],
					"the retry back-off is reset only on the exit path of a successful current instance",
					"the retry back-off is reset in "+core.FuncName(d.Obj)+", outside the exit path of a successful instance: restarts (including the automatic retries) begin from the initial interval again and a bounded back-off never gives up", nil)
				return true
			})
		}
	}()
	c.Walk("R12", &core.Config{Follow: func(f *types.Func) bool {
		return f.Pkg() != nil && RelPkg(f.Pkg().Path()) == s.pkg && f.Origin() != start.Obj && f.Origin() != exec.Obj
	}}, core.Entry{Decl: exec}, func(p *core.Path) {
		g := prepare(c, p)
		armed := false
		sawCurrent := false
		userCall := -1
		var userErr *types.Var
		userErrAlias := map[*types.Var]bool{} // locals/parameters that carry the routine's error on
		isUserErr := func(e ast.Expr, ev *core.Event) bool {
			if userErr == nil {
				return false
			}
			for _, v := range []*types.Var{identVar(e, ev.Frame), aliasOf(p, ev, e)} {
				if v != nil && (v == userErr || userErrAlias[v]) {
					return true
				}
			}
			return false
		}
		ownCancel := false
		tampered := token.NoPos
		for i, ev := range p.Events {
			// the user function's result: err = r.routine(ctx)
			if ev.Kind == core.KCall && ev.Callee == nil && ev.Builtin == "" && callsField(ev, s.f("routine")) {
				userCall = i
			}
			if ev.Kind == core.KAssign && !ev.FieldInit && userCall >= 0 {
				if v := identVar(ev.Lhs, ev.Frame); v != nil && isErrorType(v.Type()) {
					// the result of a helper walked in place that returns the routine's error carries it on
					viaRet := false
					if ev.RetEv != nil && userErr != nil {
						if _, rv := retResult(ev.RetEv, ev.RhsIdx); rv != nil && (rv == userErr || userErrAlias[rv]) {
							viaRet = true
						}
					}
					if ev.Rhs != nil && unparen(ev.Rhs) == ast.Expr(p.Events[userCall].Call) {
						userErr = v
					} else if viaRet {
						userErrAlias[v] = true
					} else if v == userErr || userErrAlias[v] {
						tampered = ev.Pos
					}
				}
			}
			// the instance cancels its own context once the routine has returned: a dynamic call of a
			// context.CancelFunc (the parameter handed by start, or the record's field) after the user call
			if userCall >= 0 && i > userCall && (ev.Kind == core.KCall || ev.Kind == core.KDefer) && ev.Callee == nil && ev.Builtin == "" && ev.Call != nil {
				if t := ev.Frame.Info().TypeOf(ev.Call.Fun); t != nil {
					if n, ok := t.(*types.Named); ok && n.Obj().Name() == "CancelFunc" && n.Obj().Pkg() != nil && n.Obj().Pkg().Path() == "context" {
						ownCancel = true
					}
				}
			}
			if assignsField(ev, s.f("err"), "") && userCall >= 0 {
				a.note("R12", name+"/records-routine-result", ev.Pos, tampered.IsValid() || userErr == nil || !isUserErr(ev.Rhs, ev),
					"the error recorded (and reported to the exit callbacks) is the value the routine returned",
					"after the routine returned, its error is reassigned ("+c.Prog.Pos(tampered)+") or replaced before it is recorded: WaitExited and the exit callbacks report something else than what the routine returned", p)
			}
			isStatus := false
			for _, f := range []string{"err", "success", "exited", "exitedCh"} {
				if assignsField(ev, s.f(f), "") {
					isStatus = true
				}
			}
			// after the routine returned, any other field of the record (ctxCancel, ctx, deferRetry …) may
			// by now belong to a successor started on the same record: same guard
			if !isStatus && userCall >= 0 && ev.Kind == core.KAssign && !ev.FieldInit && ev.Var != nil && ev.Var.IsField() && strings.HasPrefix(core.FieldName(ev.Var), s.pkg+".runningRoutine.") {
				isStatus = true
			}
			if isStatus {
				a.requireGuard("R12", name+"/status-writes", g, i, false, current, "recording the exit status")
				a.note("R12", name+"/status-writes/locked", ev.Pos, !holdsLock(ev, s.lock), "the exit status is written under the owner lock", "the exit status is written without the owner lock", p)
			}
			if ev.Kind == core.KDefer && ev.Callee == nil && ev.FunVal.Kind != core.VFuncLit {
				if _, isIdx := unparen(ev.Call.Fun).(*ast.IndexExpr); isIdx || strings.Contains(core.ExprString(ev.Call.Fun), "exitedCbs") {
					a.requireGuard("R12", name+"/exit-callbacks", g, i, false, current, "scheduling the exit callbacks")
				}
			}
			// a client callback that is handed an error after the routine returned (the exit callbacks,
			// deferred or called, wherever they are called from) is handed the routine's own result
			if (ev.Kind == core.KDefer || ev.Kind == core.KCall) && ev.Callee == nil && ev.Builtin == "" && ev.FunVal.Kind == core.VUnknown && userCall >= 0 && i > userCall && len(ev.Call.Args) == 1 && !callsField(ev, s.f("routine")) {
				if t := ev.Frame.Info().TypeOf(ev.Call.Args[0]); t != nil && isErrorType(t) {
					a.note("R12", name+"/exit-callbacks/argument", ev.Pos, userErr == nil || tampered.IsValid() || !isUserErr(ev.Call.Args[0], ev),
						"the exit callbacks are handed the error the routine returned",
						"an exit callback is handed "+core.ExprString(ev.Call.Args[0])+", not the value the routine returned: a field read after the critical section can already belong to the next attempt", p)
				}
			}
			if assignsField(ev, s.f("deferRetry"), "") && ev.Rhs != nil && !isNilExpr(ev.Rhs, ev.Frame) {
				armed = true
				a.requireGuard("R5c", name+"/arm-retry", g, i, false, fand(current, armWant), "arming the retry timer")
			}
			// the back-off is advanced (NextBackOff consumes a step of the container's shared back-off) only
			// for a failed exit of the current, still registered instance: a superseded instance that was
			// cancelled must not use up retries of its successor
			if (ev.Kind == core.KCall || ev.Kind == core.KEnter) && ev.Callee != nil && ev.Callee.Name() == "NextBackOff" && ev.Call != nil {
				if fv := fieldVar(callRecv(ev.Call), ev.Frame); fv != nil && core.FieldName(fv) == retryBo {
					a.requireGuard("R5c", name+"/advance-backoff", g, i, false, fand(current, fand(regd, fnot(fld(s.f("success"))))), "advancing the back-off")
				}
			}
			if (ev.Kind == core.KCall || ev.Kind == core.KEnter) && ev.Callee != nil && ev.Callee.Name() == "Reset" && strings.Contains(core.ExprString(ev.Call.Fun), "retryBo") {
				resetJudged[ev.Call.Pos()] = true
				a.requireGuard("R5c", name+"/reset-backoff", g, i, false, fand(current, fld(s.f("success"))), "resetting the back-off")
			}
			if g.lits[i] != nil && strings.Contains(g.lits[i].f.String(), current.String()) && g.lits[i].val {
				sawCurrent = true
			}
		}
		if sawCurrent && p.End == core.EndReturn {
			arms = append(arms, armPath{lits: g.litsBefore(len(p.Events), false), armed: armed, p: p, pos: exec.Decl.Pos()})
		}
		if userCall >= 0 && p.End == core.EndReturn {
			a.note("R4", name+"/cancels-own-context-on-exit", p.Events[userCall].Pos, !ownCancel,
				"an instance whose routine returned cancels its own context",
				"a path on which the routine returned never calls the instance's cancel func: an instance that exited on its own keeps a live context (and whatever the routine bound to it) after the container moved on", p)
		}
	})
	// ⇔: a current-instance exit that satisfies the arming condition arms the timer
	for _, ap := range arms {
		if ap.armed {
			continue
		}
		mentions := false
		for _, l := range ap.lits {
			ats := map[string]*formula{}
			l.f.atoms(ats)
			for n := range ats {
				if strings.Contains(armWant.String(), n) {
					mentions = true
				}
			}
		}
		if !mentions {
			continue
		}
		ok, cx := implies(ap.lits, fnot(armWant))
		a.note("R5c", name+"/arm-retry/complete", ap.pos, !ok,
			"every exit of the current instance that fails while registered with retry configured arms the timer",
			sprintf("a path on which the current instance exits without arming the retry timer does not exclude the arming condition %s (conditions: %s; counterexample: %s): a failed routine that is still wanted is not retried", armWant, litsString(ap.lits), cx), ap.p)
	}
	a.expect("R12", name+"/status-writes", 3, "status writes in execute")
	// timer callbacks inside execute
	for _, cb := range s.retryTimers(start) {
		lname := cb.name()
		// "still registered" is said about the receiver of the function the callback lives in
		owner := cb.decl
		if owner == nil {
			owner = cb.outer
		}
		regd := eq(recvRole(c, owner), s.slot)
		if s.pkg == "keyed" {
			regd = eq("keyed.Keyed.routines[keyed.runningRoutine.key]", recvRole(c, owner))
		}
		c.Walk("R5b", &core.Config{Follow: func(f *types.Func) bool {
			// unexported helpers (a lock-taking wrapper such as locked(fn)) are walked in place
			return f.Pkg() != nil && RelPkg(f.Pkg().Path()) == s.pkg && !f.Exported() && f.Origin() != start.Obj && f.Origin() != exec.Obj
		}}, cb.entry(), func(p *core.Path) {
			g := prepare(c, p)
			want := fand(fand(fnot(eq("nil", s.ctxFld)), regd), fld(s.f("exited")))
			restarted := false
			firstWrite := len(p.Events)
			for i, ev := range p.Events {
				if ev.Kind == core.KAssign && !ev.FieldInit && ev.Var != nil && ev.Var.IsField() && i < firstWrite {
					firstWrite = i
				}
				if !callsFunc(ev, core.FuncName(start.Obj)) {
					continue
				}
				restarted = true
				a.requireGuard("R5b", lname+"/restart", g, i, false, want, "the retry restart")
				a.note("R5b", lname+"/restart/locked", ev.Pos, !holdsLock(ev, s.lock), "the retry restart runs under the owner lock", "the retry restart runs without the owner lock", p)
			}
			// ⇔: the timer that fired was the only thing that would have run the record again — a path that
			// does not restart has found (on the state as it was when the callback took the lock, before
			// any write of its own) no context, a record that is no longer registered, or one that has not exited
			if !restarted && p.End == core.EndReturn {
				var pre []*r2Lit
				for j := 0; j < firstWrite; j++ {
					if g.lits[j] != nil {
						pre = append(pre, g.lits[j])
					}
				}
				ok, cx := implies(pre, fnot(want))
				a.note("R5b", lname+"/restart/complete", entryPos(cb.entry()), !ok,
					"a firing of the retry timer that does not restart has found no context, an unregistered record or an instance that has not exited",
					c.Pretty(sprintf("the retry timer callback returns without restarting on a path that has not excluded %s before it wrote anything (conditions: %s; counterexample %s): the pending retry is consumed and nothing runs the failed routine again", want, litsString(pre), cx)), p)
			}
		})
		a.expect("R5b", lname+"/restart", 1, "restart in the retry timer callback")
	}
}

// retryTimers: the time.AfterFunc callbacks of the package that (re)start a record, wherever the
// arming code lives (execute itself or a helper it calls).
func (s *sup) retryTimers(start *core.FuncDecl) []callbackRef {
	var out []callbackRef
	for _, cb := range pkgTimerCallbacks(s.c, s.pkg) {
		body, info := cb.body()
		if bodyCalls(s.c, body, info, start.Obj, 2) {
			out = append(out, cb)
		}
	}
	return out
}

// removalTimers: the other time.AfterFunc callbacks (they do not start anything).
func (s *sup) removalTimers(start *core.FuncDecl) []callbackRef {
	var out []callbackRef
	for _, cb := range pkgTimerCallbacks(s.c, s.pkg) {
		body, info := cb.body()
		if !bodyCalls(s.c, body, info, start.Obj, 2) {
			out = append(out, cb)
		}
	}
	return out
}

// api walks the exported methods with the package helpers inlined.
func (s *sup) api(start, exec *core.FuncDecl) {
	c, a := s.c, s.a
	startName := core.FuncName(start.Obj)
	follow := func(f *types.Func) bool {
		return f.Pkg() != nil && RelPkg(f.Pkg().Path()) == s.pkg && f.Origin() != exec.Obj
	}
	isRetryTimer := map[string]bool{}
	for _, cb := range s.retryTimers(start) {
		isRetryTimer[cb.name()] = true
	}
	var setCtxRestart, setCtxCtx *types.Var
	if d := c.Prog.Decl(c.Prog.LookupFunc(s.pkg, s.owner, "SetContext")); d != nil {
		setCtxRestart, setCtxCtx = paramWhere(d, isBoolType), paramWhere(d, isContextType)
	}
	var entries []core.Entry
	for _, d := range c.Prog.Funcs {
		if RelPkg(d.Pkg.PkgPath) == s.pkg && d.Obj.Exported() && d.Decl.Recv != nil {
			entries = append(entries, core.Entry{Decl: d})
		}
	}
	// the context setters: exported methods with a context parameter that (directly or through a
	// same-package helper handed the parameter) is assigned to the container's ctx field
	ctxSetter := map[*types.Func]bool{}
	for _, en := range entries {
		d := en.Decl
		cp := paramWhere(d, isContextType)
		if cp == nil {
			continue
		}
		var stores func(dd *core.FuncDecl, v *types.Var, depth int) bool
		stores = func(dd *core.FuncDecl, v *types.Var, depth int) bool {
			found := false
			ast.Inspect(dd.Decl.Body, func(n ast.Node) bool {
				if found {
					return false
				}
				if rhs, ok := assignsFieldNode(dd, n, s.ctxFld); ok && rhs != nil {
					if identVar(rhs, &core.Frame{Pkg: dd.Pkg}) == v {
						found = true
					}
				}
				if call, ok := n.(*ast.CallExpr); ok && depth < 2 {
					if f, _ := typeutil.Callee(dd.Pkg.TypesInfo, call).(*types.Func); f != nil && f.Pkg() == dd.Obj.Pkg() {
						if hd := c.Prog.Decl(f.Origin()); hd != nil && hd != dd {
							hps := paramVars(hd)
							for ai, arg := range call.Args {
								if identVar(arg, &core.Frame{Pkg: dd.Pkg}) == v && ai < len(hps) && hps[ai] != nil && stores(hd, hps[ai], depth+1) {
									found = true
								}
							}
						}
					}
				}
				return !found
			})
			return found
		}
		if stores(d, cp, 0) {
			ctxSetter[d.Obj] = true
		}
	}
	for _, cb := range s.retryTimers(start) {
		entries = append(entries, cb.entry())
	}
	sortEntries(entries)
	for _, e := range entries {
		e := e
		// a context setter: an exported method with a context parameter some path of which stores that
		// parameter into the container's ctx field
		var entryCtx *types.Var
		if e.Decl != nil && ctxSetter[e.Decl.Obj] {
			entryCtx = paramWhere(e.Decl, isContextType)
		}
		c.Walk("R4", &core.Config{Follow: follow, Unroll: 1}, e, func(p *core.Path) {
			g := prepare(c, p)
			cancelCalls := 0
			ctxStored := map[*types.Var]bool{} // locals stored into the container ctx on this path
			ctxStoredTerm := map[string]bool{}
			ctxLoaded := map[*types.Var]int{} // locals that hold the value read from the container ctx field
			ctxParamStored := false              // the entry's own context parameter was stored into the container ctx field
			var retryStops []int
			started, detached, rearmed := false, false, false
			var lookupOK *types.Var // the comma-ok variable of the latest lookup in the slot
			for i, ev := range p.Events {
				if g.callsFieldAt(i, s.f("ctxCancel")) {
					cancelCalls++
				}
				if ev.Kind == core.KAssign && ev.RhsIdx == 1 && ev.Rhs != nil {
					if ix, ok := unparen(ev.Rhs).(*ast.IndexExpr); ok {
						if fv := fieldVar(ix.X, ev.Frame); fv != nil && core.FieldName(fv) == s.slot {
							lookupOK = identVar(ev.Lhs, ev.Frame)
						}
					}
				}
				if ev.Kind == core.KGo && ev.Callee == exec.Obj {
					started = true
				}
				// who may forget a success: the recorded success of an instance is cleared only inside a
				// forced start (forceRestart is the constant true at the call site), or where the path has
				// shown there is none to forget — whichever helper the write sits in
				if assignsField(ev, s.f("success"), "false") {
					forced := false
					for fr := ev.Frame; fr != nil; fr = fr.Parent {
						if fr.Fn != nil && fr.Fn.Origin() == start.Obj && fr.Call != nil && fr.Parent != nil && len(fr.Call.Args) == 3 {
							if tv, ok := fr.Parent.Info().Types[unparen(fr.Call.Args[2])]; ok && tv.Value != nil && tv.Value.ExactString() == "true" {
								forced = true
							}
						}
					}
					if !forced {
						okNone, _ := implies(g.litsBefore(i, false), fnot(fld(s.f("success"))))
						a.note("R12", enclosingName(c, ev)+"/success-forgotten-only-by-forced-start", ev.Pos, !okNone,
							"a recorded success is cleared only inside a forced start, or where the path has shown the instance did not succeed",
							"the success flag is cleared on a path from "+e.Name+" that is not inside a forced start and has not shown the flag false: a later start(…, false) — SetContext after ClearContext, a context swap — runs a routine that had returned nil again", p)
					}
				}
				// a local loaded from the container's ctx field (directly, or as the result of a helper
				// walked in place) stands for the field while the field is not written and the lock is held
				if ev.Kind == core.KAssign && !ev.FieldInit {
					if lv := identVar(ev.Lhs, ev.Frame); lv != nil && !lv.IsField() {
						delete(ctxLoaded, lv)
						src, sfr := ev.Rhs, ev.Frame
						if ev.RetEv != nil {
							if re, _ := retResult(ev.RetEv, ev.RhsIdx); re != nil {
								src, sfr = re, ev.RetEv.Frame
							}
						}
						if src != nil && (ev.RhsIdx < 0 || ev.RetEv != nil) {
							if fv := fieldVar(src, sfr); fv != nil && core.FieldName(fv) == s.ctxFld {
								ctxLoaded[lv] = i
							} else if sv := identVar(src, sfr); sv != nil {
								if at, ok := ctxLoaded[sv]; ok {
									ctxLoaded[lv] = at
								}
							}
						}
					}
				}
				// "the root context is dead, forget it": the context whose Err() is consulted before the
				// container's ctx field is cleared is that field itself (not the caller's own context)
				if assignsField(ev, s.ctxFld, "nil") && g.sec[i] >= 0 {
					consulted, own := false, false
					for j := g.sec[i]; j < i; j++ {
						if l := g.lits[j]; l != nil {
							ats := map[string]*formula{}
							l.f.atoms(ats)
							for n := range ats {
								if strings.Contains(n, ".Err()") {
									consulted = true
									if strings.Contains(n, s.ctxFld+".Err()") {
										own = true
									}
								}
							}
						}
					}
					if consulted {
						a.note("R12", enclosingName(c, ev)+"/forgets-only-its-own-dead-context", ev.Pos, !own,
							"the container's context is forgotten because its own Err() is non-nil",
							"the container's ctx field is cleared after consulting the Err() of another context (the caller's): a waiter with a cancelled context makes the container forget a live root context, and a later ClearContext/SetContext finds nothing to stop", p)
					}
				}
				if assignsField(ev, s.ctxFld, "") {
					for k := range ctxLoaded {
						delete(ctxLoaded, k)
					}
					if entryCtx != nil && ev.Rhs != nil {
						for _, v := range []*types.Var{identVar(ev.Rhs, ev.Frame), aliasOf(p, ev, ev.Rhs)} {
							if v == entryCtx {
								ctxParamStored = true
							}
						}
					}
				}
				if assignsField(ev, s.ctxFld, "") && ev.Rhs != nil {
					if v := identVar(ev.Rhs, ev.Frame); v != nil {
						ctxStored[v] = true
						ctxStoredTerm[g.builderAt(i).varTerm(v, ev.Frame)] = true
					}
					if isNilExpr(ev.Rhs, ev.Frame) {
						ctxStoredTerm["nil"] = true
					}
				}
				// call sites of start
				if callsFunc(ev, startName) && len(ev.Call.Args) == 3 {
					site := enclosingName(c, ev) + "/start"
					arg0 := ev.Call.Args[0]
					fromCtx := false
					if fv := fieldVar(arg0, ev.Frame); fv != nil && core.FieldName(fv) == s.ctxFld {
						fromCtx = true
					}
					if v := identVar(arg0, ev.Frame); v != nil && (ctxStored[v] || ctxStored[aliasOf(p, ev, arg0)] || ctxStoredTerm[g.builderAt(i).varTerm(v, ev.Frame)]) {
						fromCtx = true
					}
					for _, v := range []*types.Var{identVar(arg0, ev.Frame), aliasOf(p, ev, arg0)} {
						if at, ok := ctxLoaded[v]; ok && v != nil && g.sec[at] == g.sec[i] && g.sec[i] >= 0 {
							fromCtx = true
						}
					}
					a.note("R12", site+"/current-context", ev.Pos, !fromCtx,
						"start is handed the container's current context",
						"start is handed a context that is neither the container's ctx field nor the value just stored in it: the new instance does not derive from the current context", p)
					tv, isConst := ev.Frame.Info().Types[unparen(ev.Call.Args[2])]
					cst := isConst && tv.Value != nil
					bad := !cst
					why := "forceRestart is not a constant at this call site: a caller-controlled flag can re-run a routine that returned nil"
					if cst && tv.Value.ExactString() == "true" {
						// the entries that may force a restart: the exported Restart* methods and the retry timer
						if !(isRetryTimer[e.Name] || (e.Decl != nil && e.Decl.Obj.Exported() && strings.HasPrefix(e.Decl.Obj.Name(), "Restart"))) {
							bad, why = true, "forceRestart=true is passed on a path that starts neither in an exported Restart* method nor in the retry timer"
						}
					}
					a.note("R12", site+"/force-constant", ev.Pos, bad, "forceRestart is a constant, true only on paths from the exported Restart* methods and in the retry timer", why, p)
					if s.pkg == "routine" && strings.HasSuffix(enclosingName(c, ev), ".SetContext") {
						a.requireGuard("R12", site+"/restart-guard", g, i, true,
							fand(for_(eq("nil", s.f("err")), g.builderAt(i).varFormula(setCtxRestart, ev.Frame)), fnot(eq(g.builderAt(i).varTerm(setCtxCtx, ev.Frame), "nil"))), "SetContext restarting the routine")
					}
				}
				// slot writes: R4 (b)
				isSlotWrite := ev.Kind == core.KAssign && !ev.FieldInit && ev.Var != nil && core.FieldName(ev.Var) == s.slot
				isDelete := ev.Kind == core.KCall && ev.Builtin == "delete" && fieldVar(ev.Call.Args[0], ev.Frame) != nil && core.FieldName(fieldVar(ev.Call.Args[0], ev.Frame)) == s.slot
				if isSlotWrite || isDelete {
					detached = true
					// does an old record exist on this path?
					lits := g.litsBefore(i, false)
					oldMayExist := true
					if okNil, _ := implies(lits, eq("nil", s.slot)); okNil {
						oldMayExist = false
					}
					// the entry being written was looked up and found nil (the table never holds nil records)
					if isSlotWrite {
						if ix, ok := unparen(ev.Lhs).(*ast.IndexExpr); ok {
							if t, ok := g.builderAt(i).term(ix, ev.Frame); ok {
								if okNil, _ := implies(lits, eq("nil", t)); okNil {
									oldMayExist = false
								}
							}
						}
					}
					if s.pkg == "keyed" && lookupOK != nil {
						if okNot, _ := implies(lits, fnot(fld(c.Role(lookupOK)))); okNot && isSlotWrite {
							oldMayExist = false
						}
					}
					if oldMayExist {
						okNil, _ := implies(lits, eq("nil", s.f("ctxCancel")))
						what := "clearing/overwriting the record slot"
						if isDelete {
							what = "deleting the key"
						}
						a.note("R4", enclosingName(c, ev)+"/cancel-before-detach", ev.Pos, !(cancelCalls > 0 || okNil),
							"the old record's cancel func is called (or nil) before the record leaves its slot",
							what+" happens on a path that neither called the record's cancel func (the field, read at that moment) nor showed it nil: the removed instance keeps running with a live context", p)
					}
				}
				// retry timer stopped/forgotten by an API function (R5a)
				if assignsField(ev, s.f("deferRetry"), "nil") {
					retryStops = append(retryStops, i)
				}
				if assignsField(ev, s.f("deferRetry"), "") && ev.Rhs != nil && !isNilExpr(ev.Rhs, ev.Frame) {
					rearmed = true
				}
				// storing a different root context: R4 (c)
				if assignsField(ev, s.ctxFld, "") && ev.Rhs != nil && !isNilExpr(ev.Rhs, ev.Frame) && strings.HasSuffix(enclosingName(c, ev), "SetContext") || strings.HasSuffix(enclosingName(c, ev), "setContextLocked") && assignsField(ev, s.ctxFld, "") {
					_ = i
				}
			}
			if len(retryStops) > 0 && p.End == core.EndReturn {
				i := retryStops[0]
				ev := p.Events[i]
				lits := g.litsBefore(len(p.Events), false)
				noCtx, _ := implies(lits, eq("nil", s.ctxFld))
				for t := range ctxStoredTerm {
					if t == "nil" {
						noCtx = true
					} else if ok, _ := implies(lits, eq("nil", t)); ok {
						noCtx = true
					}
				}
				// a routine that returned nil is not retried at all
				succeeded, _ := implies(lits, for_(fld(s.f("success")), eq("nil", s.f("routine"))))
				okv := started || detached || rearmed || noCtx || succeeded
				a.note("R5a", enclosingName(c, ev)+"/retry-stopped", ev.Pos, !okv,
					"a path that stops the retry timer starts, detaches or re-arms the record, or has no context",
					"the retry timer of a record is stopped and forgotten on a path that neither starts the routine, detaches the record, re-arms the timer nor has a nil context: a failed routine that stays wanted is never retried (conditions: "+litsString(lits)+")", p)
			}
			// a context setter stores its context argument on every path, unless the path has shown it
			// equal to the container's current context (nothing to do)
			if entryCtx != nil && p.End == core.EndReturn {
				okc := ctxParamStored
				if !okc {
					okc, _ = implies(g.litsBefore(len(p.Events), false), eq(c.Role(entryCtx), s.ctxFld))
				}
				a.note("R12", entryName(e)+"/stores-context", e.Decl.Decl.Pos(), !okc,
					"every path of the context setter stores the new context, or has found it equal to the current one",
					"a path of the context setter returns without storing its context argument although it may differ from the container's current context: the container keeps the replaced (or cleared) context, and a later restart, new routine or retry runs under it", p)
			}
			// R4 (c): SetContext with a different context cancels every record it keeps running
			if p.End == core.EndReturn && strings.HasSuffix(entryName(e), ".SetContext") {
				s.setContextPath(g, p, cancelCalls)
			}
		})
	}
}

func entryName(e core.Entry) string {
	if e.Decl != nil {
		return core.FuncName(e.Decl.Obj)
	}
	return e.Name
}

func sortEntries(es []core.Entry) {
	for i := 1; i < len(es); i++ {
		for j := i; j > 0 && entryPos(es[j]) < entryPos(es[j-1]); j-- {
			es[j], es[j-1] = es[j-1], es[j]
		}
	}
}

// setContextPath: a path of SetContext that stores a different root context while a record exists
// either cancels the record or shows that its instance already exited with an error.
func (s *sup) setContextPath(g *gpath, p *core.Path, cancelCalls int) {
	c, a := s.c, s.a
	stored := -1
	for i, ev := range p.Events {
		if assignsField(ev, s.ctxFld, "") && strings.Contains(enclosingName(c, ev), "ontext") {
			stored = i
		}
	}
	if stored < 0 {
		return
	}
	lits := g.litsBefore(len(p.Events), false)
	// "the context did not change": any comparison of the container's ctx field with something
	same := &formula{kind: fConst, val: false}
	for _, l := range lits {
		ats := map[string]*formula{}
		l.f.atoms(ats)
		for n := range ats {
			if strings.HasPrefix(n, "EQ(") && strings.Contains(n, s.ctxFld) && !strings.Contains(n, "nil") {
				same = for_(same, atom(n))
			}
		}
	}
	// same context, or no record, or already failed (its context was cancelled when it exited)
	exempt := for_(for_(same, eq("nil", s.slot)), fnot(eq("nil", s.f("err"))))
	if s.pkg == "keyed" {
		// keyed iterates over the records: a path without loop iteration keeps no record
		hasIter := false
		for _, ev := range p.Events[stored:] {
			if ev.Kind == core.KLoop {
				hasIter = true
			}
		}
		if !hasIter {
			return
		}
	}
	ok, _ := implies(lits, exempt)
	nilCancel, _ := implies(lits, eq("nil", s.f("ctxCancel")))
	ev := p.Events[stored]
	a.note("R4", enclosingName(c, ev)+"/cancel-on-context-change", ev.Pos, !(ok || nilCancel || cancelCalls > 0),
		"storing a different root context cancels every running record (or the record is shown absent / already failed)",
		"a different root context is stored on a path that keeps a record without calling its cancel func: the instance keeps running on the old context (conditions: "+litsString(lits)+")", p)
}

// keyedExtras: removal timers, remove(), SetKey/SyncKeys agreement, KeyedRefCount.
func (s *sup) keyedExtras() {
	c, a := s.c, s.a
	// remove(): the function that arms the delayed removal (stores a timer into deferRemove)
	var remove *core.FuncDecl
	for _, d := range declsWhere(c, "keyed", func(d *core.FuncDecl, n ast.Node) bool {
		rhs, ok := assignsFieldNode(d, n, s.f("deferRemove"))
		return ok && rhs != nil && !isNilExpr(rhs, &core.Frame{Pkg: d.Pkg})
	}) {
		remove = d
		break
	}
	if remove == nil {
		c.MissingAnchor("R12", "keyed: the function that arms the delayed removal (assigns a timer to runningRoutine.deferRemove)")
	}
	var startDecl *core.FuncDecl
	if f := c.Prog.LookupFunc("keyed", "runningRoutine", "start"); f != nil {
		startDecl = c.Prog.Decl(f)
	}
	a.topic = "removal"
	if remove != nil && startDecl != nil {
		name := core.FuncName(remove.Obj)
		regd := eq("keyed.Keyed.routines[keyed.runningRoutine.key]", recvRole(c, remove))
		immediate := for_(eq("0", "keyed.Keyed.releaseDelay"), fand(fld(s.f("exited")), fnot(fld(s.f("success")))))
		type rp struct {
			lits []*r2Lit
			now  bool
			p    *core.Path
		}
		var rps []rp
		c.Walk("R12", &core.Config{Follow: func(f *types.Func) bool {
			return f.Pkg() != nil && RelPkg(f.Pkg().Path()) == s.pkg && f.Origin() != startDecl.Obj
		}}, core.Entry{Decl: remove}, func(p *core.Path) {
			g := prepare(c, p)
			now := false
			for i, ev := range p.Events {
				if ev.Kind == core.KCall && ev.Builtin == "delete" {
					now = true
					a.requireGuard("R12", name+"/remove-now", g, i, false, fand(eq("nil", s.f("deferRemove")), immediate), "deleting the key at once")
				}
				if assignsField(ev, s.f("deferRemove"), "") && ev.Rhs != nil && !isNilExpr(ev.Rhs, ev.Frame) {
					a.requireGuard("R12", name+"/arm-removal", g, i, false, fand(eq("nil", s.f("deferRemove")), fnot(immediate)), "arming the delayed removal")
				}
			}
			if p.End == core.EndReturn {
				rps = append(rps, rp{g.litsBefore(len(p.Events), false), now, p})
			}
		})
		a.expect("R12", name+"/remove-now", 1, "the immediate removal in remove()")
		a.expect("R12", name+"/arm-removal", 1, "the delayed removal in remove()")
		// the timer callback of the delayed removal
		for _, cb := range s.removalTimers(startDecl) {
			lname := cb.name()
			regd := regd
			if cb.decl != nil {
				regd = eq("keyed.Keyed.routines[keyed.runningRoutine.key]", recvRole(c, cb.decl))
			}
			c.Walk("R5b", &core.Config{Follow: func(f *types.Func) bool {
				return f.Pkg() != nil && RelPkg(f.Pkg().Path()) == s.pkg && f.Origin() != startDecl.Obj
			}}, cb.entry(), func(p *core.Path) {
				g := prepare(c, p)
				cancelled := false
				for i, ev := range p.Events {
					if g.callsFieldAt(i, s.f("ctxCancel")) {
						cancelled = true
					}
					if ev.Kind == core.KCall && ev.Builtin == "delete" {
						a.requireGuard("R5b", lname+"/delete", g, i, false, fand(regd, fnot(eq("nil", s.f("deferRemove")))), "the delayed deletion")
						a.note("R5b", lname+"/delete/locked", ev.Pos, !holdsLock(ev, s.lock), "the delayed deletion runs under the owner lock", "the delayed deletion runs without the owner lock", p)
						okNil, _ := implies(g.litsBefore(i, false), eq("nil", s.f("ctxCancel")))
						a.note("R4", lname+"/cancel-before-delete", ev.Pos, !(cancelled || okNil),
							"the record's cancel func (the field, read when the timer fires) is called before the key is deleted",
							"the key is deleted on a path that did not call the record's current cancel func: an instance started after the removal was requested keeps running", p)
					}
				}
			})
			a.expect("R5b", lname+"/delete", 1, "delete in the removal timer callback")
		}
	}
	a.topic = ""
	// R6b: SetKey and SyncKeys agree on the kept record's pending removal
	for _, fn := range []string{"SetKey", "SyncKeys"} {
		d := c.declByName("R6b", "keyed", "Keyed", fn)
		if d == nil {
			continue
		}
		name := core.FuncName(d.Obj)
		c.Walk("R6b", &core.Config{Unroll: 1, Follow: helperFollow(s.pkg, "start", "execute")}, core.Entry{Decl: d}, func(p *core.Path) {
			g := prepare(c, p)
			// segments between lookups: each `existed == true` decision must be followed, before the
			// next lookup or the return, by deferRemove = nil or a test showing it nil
			kept := -1
			cleared := false
			okRole := ""
			recTerm := ""
			flush := func(pos token.Pos) {
				if kept >= 0 {
					a.note("R6b", name+"/kept-record-removal-cancelled", pos, !cleared,
						"a record that is found and kept has its pending delayed removal cancelled (deferRemove stopped and cleared, or shown nil)",
						"a key that already exists is kept without cancelling its pending delayed removal: the key is deleted when the release delay expires although it was requested again", p)
				}
				kept, cleared = -1, false
			}
			for i, ev := range p.Events {
				if ev.Kind == core.KLoop {
					flush(ev.Pos)
				}
				// the comma-ok result of a lookup in the record table
				if ev.Kind == core.KAssign && ev.RhsIdx == 1 && ev.Rhs != nil {
					if ix, ok := unparen(ev.Rhs).(*ast.IndexExpr); ok {
						if fv := fieldVar(ix.X, ev.Frame); fv != nil && core.FieldName(fv) == s.slot {
							if v := identVar(ev.Lhs, ev.Frame); v != nil {
								okRole = c.Role(v)
							}
						}
					}
				}
				// … or a plain lookup whose result is tested against nil (the table never holds nil records)
				if ev.Kind == core.KAssign && ev.RhsIdx < 0 && ev.Rhs != nil && !ev.FieldInit {
					if ix, ok := unparen(ev.Rhs).(*ast.IndexExpr); ok {
						if fv := fieldVar(ix.X, ev.Frame); fv != nil && core.FieldName(fv) == s.slot {
							if t, ok := g.builderAt(i).term(ev.Rhs, ev.Frame); ok {
								recTerm = t
							}
						}
					}
				}
				if l := g.lits[i]; l != nil {
					str := l.f.String()
					if okRole != "" && (str == "F("+okRole+")" && l.val || str == "!F("+okRole+")" && !l.val) {
						kept = i
					}
					if recTerm != "" {
						if ok, _ := implies([]*r2Lit{l}, fnot(eq("nil", recTerm))); ok {
							kept = i
						}
					}
					if kept >= 0 {
						if ok, _ := implies([]*r2Lit{l}, eq("nil", s.f("deferRemove"))); ok {
							cleared = true
						}
					}
				}
				if kept >= 0 && assignsField(ev, s.f("deferRemove"), "nil") {
					cleared = true
				}
			}
			if len(p.Events) > 0 {
				flush(p.Events[len(p.Events)-1].Pos)
			}
		})
		a.expect("R6b", name+"/kept-record-removal-cancelled", 1, "the existed-path of "+fn)
	}
	// SyncKeys: every returning path scans the record table for keys that were not requested (the
	// removal half of "the key set equals what was asked for"): no shortcut decides from lengths
	if d := c.declByName("R6b", "keyed", "Keyed", "SyncKeys"); d != nil {
		name := core.FuncName(d.Obj)
		c.Walk("R6b", &core.Config{Unroll: 1, Follow: helperFollow(s.pkg, "start", "execute")}, core.Entry{Decl: d}, func(p *core.Path) {
			if p.End != core.EndReturn {
				return
			}
			scanned := false
			for _, ev := range p.Events {
				if ev.Kind == core.KRange {
					if rs, ok := ev.Node.(*ast.RangeStmt); ok {
						if fv := fieldVar(rs.X, ev.Frame); fv != nil && core.FieldName(fv) == s.slot {
							scanned = true
						}
					}
				}
			}
			a.note("R6b", name+"/removal-scan-on-every-path", d.Decl.Pos(), !scanned,
				"every path ranges over the record table to remove the keys that were not requested",
				"a path of SyncKeys returns without ranging over the record table: keys that are held but were not requested stay in the set (a shortcut on lengths is wrong as soon as the request repeats a key)", p)
		})
	}
	// KeyedRefCount
	if d := c.declByName("R12", "keyed", "KeyedRefCount", "AddKeyRef"); d != nil {
		name := core.FuncName(d.Obj)
		c.Walk("R12", &core.Config{Follow: helperFollow(s.pkg, "start", "execute")}, core.Entry{Decl: d}, func(p *core.Path) {
			setSec, regSec := -2, -3
			g := prepare(c, p)
			var pos token.Pos
			for i, ev := range p.Events {
				if (ev.Kind == core.KCall || ev.Kind == core.KEnter) && ev.Callee != nil && ev.Callee.Name() == "SetKey" {
					setSec, pos = g.sec[i], ev.Pos
					if !holdsLock(ev, "keyed.KeyedRefCount.mtx") {
						setSec = -2
					}
				}
				if ev.Kind == core.KAssign && !ev.FieldInit && ev.Var != nil && core.FieldName(ev.Var) == "keyed.KeyedRefCount.refs" {
					regSec = g.sec[i]
				}
			}
			// what AddKeyRef reports as "existed" is what the underlying SetKey reported (a key lives on
			// in the Keyed during a release delay although its reference list is empty)
			if p.End == core.EndReturn {
				var existedVar *types.Var
				for _, ev := range p.Events {
					if ev.Kind == core.KAssign && ev.RhsIdx == 1 && ev.Rhs != nil {
						if call, ok := unparen(ev.Rhs).(*ast.CallExpr); ok {
							if _, isSet := callSel(call, "SetKey"); isSet {
								existedVar = identVar(ev.Lhs, ev.Frame)
							}
						}
					}
				}
				okRet := false
				for _, ev := range p.Events {
					if ev.Kind != core.KReturn || ev.Frame.Parent != nil {
						continue
					}
					if len(ev.Results) == 3 {
						okRet = existedVar != nil && identVar(ev.Results[2], ev.Frame) == existedVar
					} else if len(ev.Results) == 0 {
						// named results: the third one is the variable SetKey's result was assigned to
						if _, rv := retResult(ev, 2); rv != nil {
							okRet = rv == existedVar
						}
					}
				}
				a.note("R12", name+"/reports-underlying-existed", d.Decl.Pos(), !okRet,
					"the existed result is the one the underlying SetKey reported",
					"AddKeyRef reports an existed value that is not the result of the underlying SetKey: during a release delay the key is still in the set although nobody references it, and the caller is told it was not", p)
			}
			a.note("R12", name+"/insert-and-register-atomically", pos, setSec != regSec,
				"the key is inserted and the reference registered in one critical section of KeyedRefCount.mtx",
				"SetKey and the registration of the new reference are not in the same critical section of KeyedRefCount.mtx: a concurrent Release of the last other reference can remove the key in between, leaving a live reference to an absent key", p)
		})
		a.expect("R12", name+"/insert-and-register-atomically", 1, "AddKeyRef")
	}
	if d := c.declByName("R16", "keyed", "KeyedRef", "Release"); d != nil {
		name := core.FuncName(d.Obj)
		c.Walk("R16", &core.Config{Follow: helperFollow(s.pkg, "start", "execute")}, core.Entry{Decl: d}, func(p *core.Path) {
			g := prepare(c, p)
			swapped := false
			for i, ev := range p.Events {
				if ev.Kind == core.KCall && ev.Callee != nil && ev.Callee.Pkg() != nil && ev.Callee.Pkg().Path() == "sync/atomic" && (ev.Callee.Name() == "Swap" || ev.Callee.Name() == "CompareAndSwap") {
					swapped = true
				}
				if ev.Kind == core.KAcquire {
					a.note("R16", name+"/test-and-set-prologue", ev.Pos, !swapped, "Release wins an atomic test-and-set before it touches the reference table",
						"Release enters the critical section without an atomic test-and-set: releasing a reference twice counts twice", p)
				}
				// the local copy of the key's reference list, once shortened, is written back (or the
				// entry deleted) before the section ends: the map holds a slice header of its own
				if ev.Kind == core.KAssign && !ev.FieldInit && ev.Rhs != nil {
					if lv := identVar(ev.Lhs, ev.Frame); lv != nil && !lv.IsField() {
						if _, isSlice := lv.Type().Underlying().(*types.Slice); isSlice {
							if se, ok := unparen(ev.Rhs).(*ast.SliceExpr); ok && identVar(se.X, ev.Frame) == lv {
								stored := false
								for _, b := range p.Events[i+1:] {
									if b.Kind == core.KCall && b.Builtin == "delete" && len(b.Call.Args) > 0 {
										if fv := fieldVar(b.Call.Args[0], b.Frame); fv != nil && core.FieldName(fv) == "keyed.KeyedRefCount.refs" {
											stored = true
										}
									}
									if b.Kind == core.KAssign && b.Var != nil && core.FieldName(b.Var) == "keyed.KeyedRefCount.refs" && b.Rhs != nil && identVar(b.Rhs, b.Frame) == lv {
										stored = true
									}
								}
								if p.End == core.EndReturn {
									a.note("R12", name+"/shortened-list-stored-back", ev.Pos, !stored,
										"the shortened reference list is stored back into the table (or the entry deleted)",
										"the key's reference list is shortened in a local copy that is never stored back: the table keeps the old length, the key is never seen as unreferenced and is not removed when its last reference is released", p)
								}
							}
						}
					}
				}
				if (ev.Kind == core.KCall || ev.Kind == core.KEnter) && ev.Callee != nil && ev.Callee.Name() == "RemoveKey" {
					refsRole := "?refs"
					if v := localWhere(d, d.Decl, func(v *types.Var, _ *ast.Ident) bool { _, ok := v.Type().Underlying().(*types.Slice); return ok }); v != nil {
						refsRole = c.Role(v)
					}
					// the local copy of the key's reference list: the slice read from the table on this path
					// (in Release itself or in the helper that holds its critical section)
					for _, b := range p.Events[:i] {
						if b.Kind == core.KAssign && !b.FieldInit && b.Rhs != nil {
							if ix, ok := unparen(b.Rhs).(*ast.IndexExpr); ok {
								if fv := fieldVar(ix.X, b.Frame); fv != nil && core.FieldName(fv) == "keyed.KeyedRefCount.refs" {
									if lv := identVar(b.Lhs, b.Frame); lv != nil && !lv.IsField() {
										refsRole = c.Role(lv)
									}
								}
							}
						}
					}
					a.requireGuard("R12", name+"/remove-when-last", g, i, false, eq("0", "len("+refsRole+")"), "removing the key from Release")
				}
			}
		})
		a.expect("R12", name+"/remove-when-last", 1, "RemoveKey in KeyedRef.Release")
	}
	if d := c.declByName("R16", "keyed", "KeyedRefCount", "RemoveKey"); d != nil {
		name := core.FuncName(d.Obj)
		c.Walk("R16", &core.Config{Follow: helperFollow(s.pkg, "start", "execute")}, core.Entry{Decl: d}, func(p *core.Path) {
			marked := false
			iter := false
			removed := -1
			for i, ev := range p.Events {
				if ev.Kind == core.KCall && ev.Callee != nil && core.FuncName(ev.Callee) == "keyed.(*Keyed).RemoveKey" {
					removed = i
				}
				// the wrapper removes the key from the underlying Keyed on every path, and what it reports
				// is what the Keyed (where a key lives on during a release delay) reports
				if ev.Kind == core.KReturn && ev.Frame.Parent == nil && len(ev.Results) == 1 {
					okRet := false
					if removed >= 0 {
						if unparen(ev.Results[0]) == ast.Expr(p.Events[removed].Call) {
							okRet = true
						} else if v := identVar(ev.Results[0], ev.Frame); v != nil {
							for _, b := range p.Events[removed:i] {
								if b.Kind == core.KAssign && b.Rhs != nil && unparen(b.Rhs) == ast.Expr(p.Events[removed].Call) && identVar(b.Lhs, b.Frame) == v {
									okRet = true
								}
							}
						}
					}
					a.note("R12", name+"/removes-and-reports-underlying-key", ev.Pos, !okRet,
						"every path removes the key from the underlying Keyed and returns what that removal reported",
						"a path of RemoveKey returns without removing the key from the underlying Keyed, or reports something other than that removal's result: a key kept alive by a release delay stays in the set (and is reported absent) although its removal was asked for", p)
				}
				if ev.Kind == core.KLoop {
					iter = true
				}
				if (ev.Kind == core.KCall || ev.Kind == core.KEnter) && ev.Callee != nil && ev.Callee.Name() == "Store" && strings.Contains(core.ExprString(ev.Call.Fun), "rel") {
					marked = true
				}
				if ev.Kind == core.KCall && ev.Builtin == "delete" && iter {
					a.note("R16", name+"/mark-released-before-delete", ev.Pos, !marked, "references are marked released before the key's reference list is dropped",
						"the reference list is dropped without marking its references released: a later Release of one of them removes a key that was requested again", p)
				}
			}
		})
	}
}

// routineExtras: WaitExited judges the record that is current in its subscribing section; the state
// container stores the state before it rebuilds the routine, and the routine closure captures the
// copy.
func (s *sup) routineExtras() {
	c, a := s.c, s.a
	if d := c.declByName("R12", "routine", "RoutineContainer", "WaitExited"); d != nil {
		name := core.FuncName(d.Obj)
		c.Walk("R12", &core.Config{EmitAccess: true}, core.Entry{Decl: d}, func(p *core.Path) {
			g := prepare(c, p)
			for i, ev := range p.Events {
				if ev.Kind != core.KAccess || ev.Write || ev.Base == nil {
					continue
				}
				fn := core.FieldName(ev.Var)
				if fn != s.f("exited") && fn != s.f("success") && fn != s.f("err") {
					continue
				}
				t, _ := g.builderAt(i).term(ev.Base, ev.Frame)
				a.note("R12", name+"/status-of-current-record", ev.Pos, !(t == s.slot && holdsLock(ev, s.lock)),
					"the exit status is read from the record that is in the container's slot in this critical section",
					"the exit status is read through "+c.Pretty(t)+", which is not the container's current record as read in this critical section: WaitExited can report the result of a superseded instance", p)
			}
		})
		a.expect("R12", name+"/status-of-current-record", 1, "reads of exited/success/err in WaitExited")
		// "nothing is running, return at once" (a bool local set to the constant true inside the
		// section) is decided only when there is no record or no context: a record that exists under a
		// context has a status — and possibly an error — to report
		c.Walk("R12", &core.Config{Follow: helperFollow("routine", "start", "execute")}, core.Entry{Decl: d}, func(p *core.Path) {
			g := prepare(c, p)
			for i, ev := range p.Events {
				if ev.Kind != core.KAssign || ev.FieldInit || ev.Rhs == nil || !holdsLock(ev, s.lock) {
					continue
				}
				lv := identVar(ev.Lhs, ev.Frame)
				if lv == nil || lv.IsField() || !isBoolType(lv.Type()) {
					continue
				}
				tv, ok := ev.Frame.Info().Types[unparen(ev.Rhs)]
				if !ok || tv.Value == nil || tv.Value.ExactString() != "true" {
					continue
				}
				okGuard, _ := implies(g.litsBefore(i, true), for_(eq("nil", s.slot), eq("nil", s.ctxFld)))
				a.note("R12", name+"/not-running-only-without-record-or-context", ev.Pos, !okGuard,
					"the wait is declared over without a status only when there is no record or no context",
					c.Pretty("WaitExited declares the wait over (without reading the record's status) on a path that has not excluded a record under a live context ("+litsString(g.litsBefore(i, true))+"): an instance that exited with an error is reported as nil"), p)
			}
		})
	}
	// the rebuild function: the StateRoutineContainer method that wraps state and state routine into a
	// Routine closure (func(context.Context) error) — found by that closure, not by its name
	var rebuild, litDecl *core.FuncDecl
	hasRoutineLit := func(d *core.FuncDecl) bool {
		found := false
		ast.Inspect(d.Decl.Body, func(n ast.Node) bool {
			lit, ok := n.(*ast.FuncLit)
			if !ok || found {
				return !found
			}
			if sig, ok := d.Pkg.TypesInfo.TypeOf(lit).(*types.Signature); ok && sig.Params().Len() == 1 && sig.Results().Len() == 1 &&
				isContextType(sig.Params().At(0).Type()) && isErrorType(sig.Results().At(0).Type()) {
				found = true
			}
			return !found
		})
		return found
	}
	isStateMethod := func(d *core.FuncDecl) bool {
		rn := core.RecvNamed(d.Obj)
		return rn != nil && rn.Obj().Name() == "StateRoutineContainer"
	}
	// … directly, or in a plain function the method calls (bindStateRoutine(routine, state))
	for _, d := range pkgDecls(c, "routine") {
		if isStateMethod(d) && hasRoutineLit(d) && rebuild == nil {
			rebuild, litDecl = d, d
		}
	}
	if rebuild == nil {
		for _, d := range pkgDecls(c, "routine") {
			if !isStateMethod(d) || rebuild != nil {
				continue
			}
			d := d
			ast.Inspect(d.Decl.Body, func(n ast.Node) bool {
				call, ok := n.(*ast.CallExpr)
				if !ok || rebuild != nil {
					return rebuild == nil
				}
				if f, _ := typeutil.Callee(d.Pkg.TypesInfo, call).(*types.Func); f != nil && f.Pkg() == d.Obj.Pkg() {
					if hd := c.Prog.Decl(f.Origin()); hd != nil && !isStateMethod(hd) && hd.Decl.Recv == nil && hasRoutineLit(hd) {
						rebuild, litDecl = d, hd
					}
				}
				return true
			})
		}
	}
	// … or as a method value of a small struct that binds state and state routine (call.run): the
	// rebuild is then the state method that hands a Routine to the function that writes the inner
	// container's slot
	var boundMethods []*core.FuncDecl
	if rebuild == nil {
		slotSetter := map[*types.Func]bool{}
		for _, sd := range declsWhere(c, "routine", func(dd *core.FuncDecl, n ast.Node) bool {
			_, ok := assignsFieldNode(dd, n, "routine.RoutineContainer.routine")
			return ok
		}) {
			slotSetter[sd.Obj] = true
		}
		for _, d := range pkgDecls(c, "routine") {
			if !isStateMethod(d) || rebuild != nil {
				continue
			}
			d := d
			callsSetter := false
			var mvs []*core.FuncDecl
			ast.Inspect(d.Decl.Body, func(n ast.Node) bool {
				switch x := n.(type) {
				case *ast.CallExpr:
					if f, _ := typeutil.Callee(d.Pkg.TypesInfo, x).(*types.Func); f != nil && slotSetter[f.Origin()] {
						callsSetter = true
					}
				case *ast.SelectorExpr:
					if sel, ok := d.Pkg.TypesInfo.Selections[x]; ok && sel.Kind() == types.MethodVal {
						if sig, ok := sel.Type().(*types.Signature); ok && sig.Params().Len() == 1 && sig.Results().Len() == 1 &&
							isContextType(sig.Params().At(0).Type()) && isErrorType(sig.Results().At(0).Type()) {
							if md := c.Prog.Decl(sel.Obj().(*types.Func).Origin()); md != nil && !isStateMethod(md) {
								mvs = append(mvs, md)
							}
						}
					}
				}
				return true
			})
			if callsSetter && len(mvs) > 0 {
				rebuild, boundMethods = d, mvs
			}
		}
	}
	for _, md := range boundMethods {
		bad := ""
		ast.Inspect(md.Decl.Body, func(x ast.Node) bool {
			if sel, ok := x.(*ast.SelectorExpr); ok {
				if fv := fieldVar(sel, &core.Frame{Pkg: md.Pkg}); fv != nil && strings.HasPrefix(core.FieldName(fv), "routine.StateRoutineContainer.") {
					bad = core.FieldName(fv)
				}
			}
			return true
		})
		a.note("R12", core.FuncName(rebuild.Obj)+"/closure-captures-copy", md.Decl.Pos(), bad != "", "the routine closure uses the state and function copied under the lock",
			"the bound routine method reads "+bad+" when it runs, outside the lock and possibly after a newer state was stored", nil)
	}
	if rebuild == nil {
		c.MissingAnchor("R12", "routine.StateRoutineContainer: the method that wraps the state into a Routine closure")
	} else {
		// every path of every exported method that stores a state rebuilds the routine from it, after the store
		for _, d := range pkgDecls(c, "routine") {
			if rn := core.RecvNamed(d.Obj); rn == nil || rn.Obj().Name() != "StateRoutineContainer" || !d.Obj.Exported() {
				continue
			}
			d := d
			c.Walk("R12", &core.Config{Follow: func(f *types.Func) bool {
				return helperFollow("routine", "start", "execute")(f) && f.Origin() != rebuild.Obj
			}}, core.Entry{Decl: d}, func(p *core.Path) {
				storeIdx, rebuildIdx := -1, -1
				for i, ev := range p.Events {
					if assignsField(ev, "routine.StateRoutineContainer.s", "") {
						storeIdx = i
					}
					if (ev.Kind == core.KCall || ev.Kind == core.KEnter) && ev.Callee != nil && ev.Callee.Origin() == rebuild.Obj {
						if storeIdx < 0 && p.End == core.EndReturn {
							// a rebuild not preceded by a store on this path: fine only if a later store does not follow
						}
						rebuildIdx = i
					}
				}
				if storeIdx >= 0 && p.End == core.EndReturn {
					name := enclosingName(c, p.Events[storeIdx])
					a.note("R12", name+"/stored-state-reaches-routine", p.Events[storeIdx].Pos, rebuildIdx < storeIdx,
						"every path that stores a state rebuilds the routine from it afterwards",
						"a path stores a new state without rebuilding the routine from it afterwards: the stored state and the state the running (and every later) instance was given differ", p)
					a.note("R12", name+"/store-state-before-rebuild", p.Events[storeIdx].Pos, rebuildIdx < storeIdx,
						"the new state is stored before the routine is rebuilt from it",
						"the routine is rebuilt before the new state is stored: the new instance runs with the previous state", p)
				}
			})
		}
	}
	if rebuild != nil {
		// the rebuild hands its decision (a routine, or none) to the inner container on every path: a
		// routine record that merely is not running at the moment (no context yet, exited, retry pending)
		// still holds the previous state and would be started with it later
		setters := map[*types.Func]bool{}
		for _, sd := range declsWhere(c, "routine", func(dd *core.FuncDecl, n ast.Node) bool {
			_, ok := assignsFieldNode(dd, n, "routine.RoutineContainer.routine")
			return ok
		}) {
			setters[sd.Obj] = true
		}
		rname := core.FuncName(rebuild.Obj)
		c.Walk("R12", &core.Config{Follow: func(f *types.Func) bool {
			return helperFollow("routine", "start", "execute")(f) && !setters[f.Origin()]
		}}, core.Entry{Decl: rebuild}, func(p *core.Path) {
			if p.End != core.EndReturn {
				return
			}
			handed := false
			for _, ev := range p.Events {
				if (ev.Kind == core.KCall || ev.Kind == core.KEnter) && ev.Callee != nil && setters[ev.Callee.Origin()] {
					handed = true
				}
			}
			a.note("R12", rname+"/hands-routine-to-container-on-every-path", rebuild.Decl.Pos(), !handed,
				"every path of the rebuild installs (or clears) the routine in the inner container",
				"a path of the rebuild returns without installing or clearing the routine in the inner container: a record built from the previous state stays installed and is started with that state by a later SetContext, restart or retry", p)
		})
	}
	if d := litDecl; d != nil {
		name := core.FuncName(rebuild.Obj)
		n := 0
		ast.Inspect(d.Decl.Body, func(nd ast.Node) bool {
			lit, ok := nd.(*ast.FuncLit)
			if !ok {
				return true
			}
			n++
			bad := ""
			ast.Inspect(lit.Body, func(x ast.Node) bool {
				if sel, ok := x.(*ast.SelectorExpr); ok {
					if fv := fieldVar(sel, &core.Frame{Pkg: d.Pkg}); fv != nil && strings.HasPrefix(core.FieldName(fv), "routine.StateRoutineContainer.") {
						bad = core.FieldName(fv)
					}
				}
				return true
			})
			a.note("R12", name+"/closure-captures-copy", lit.Pos(), bad != "", "the routine closure uses the state and function copied under the lock",
				"the routine closure reads "+bad+" when it runs, outside the lock and possibly after a newer state was stored", nil)
			// the Routine the container supervises IS the user's state routine: it is called on the
			// instance's own goroutine and the closure returns when it returns (the exit-channel chain
			// tracks the closure's return, not a goroutine it started)
			async := token.NoPos
			ast.Inspect(lit.Body, func(x ast.Node) bool {
				if gs, ok := x.(*ast.GoStmt); ok && !async.IsValid() {
					async = gs.Pos()
				}
				return true
			})
			a.note("R12", name+"/closure-calls-routine-synchronously", lit.Pos(), async.IsValid(),
				"the routine closure calls the state routine on its own goroutine and returns when it returns",
				"the routine closure starts a goroutine: it can return (and the instance be reported as exited, the next one started) while the user's function is still executing", nil)
			return false
		})
		_ = n
	}
}

func init() {
	register(&Rule{ID: "Gbackoff", Text: `R12 backoff configuration: in the constructors of the back-off (util/backoff) every field of the third-party back-off object that is assigned on some path is assigned on every path — no tunable silently keeps the third-party default (cenkalti's 15 minute MaxElapsedTime makes a retrying routine give up for good).`, Run: runGbackoff})
}

func runGbackoff(c *Ctx) {
	a := newAgg(c)
	defer a.flush()
	pkg := c.Prog.Pkg("backoff")
	if pkg == nil {
		c.MissingAnchor("R12", "package backoff")
		return
	}
	n := 0
	for _, d := range c.Prog.Funcs {
		if d.Pkg != pkg || !strings.HasPrefix(d.Obj.Name(), "construct") {
			continue
		}
		n++
		d := d
		name := core.FuncName(d.Obj)
		type pw struct {
			fields map[string]bool
			p      *core.Path
		}
		var pws []pw
		all := map[string]bool{}
		c.Walk("R12", &core.Config{}, core.Entry{Decl: d}, func(p *core.Path) {
			if p.End != core.EndReturn {
				return
			}
			fs := map[string]bool{}
			lastSet, lastReset := -1, -1
			for i, ev := range p.Events {
				if ev.Kind == core.KAssign && !ev.FieldInit && ev.Var != nil && ev.Var.IsField() && !core.InModule(ev.Var) {
					fs[ev.Var.Name()] = true
					all[ev.Var.Name()] = true
					lastSet = i
				}
				if ev.Kind == core.KCall && ev.Callee != nil && ev.Callee.Name() == "Reset" && !core.InModule(ev.Callee) {
					lastReset = i
				}
			}
			// a third-party back-off whose tunables were assigned after construction is Reset afterwards:
			// its current interval was computed from the defaults when it was constructed
			if lastSet >= 0 {
				a.note("R12", name+"/reset-after-configuration", p.Events[lastSet].Pos, lastReset < lastSet,
					"the third-party back-off is Reset after its tunables were assigned",
					"the tunables of the third-party back-off are assigned after its construction and it is not Reset afterwards: the first intervals are the ones computed from the library defaults (500ms initial interval), not the configured ones", p)
			}
			pws = append(pws, pw{fs, p})
		})
		for _, x := range pws {
			var missing []string
			for f := range all {
				if !x.fields[f] {
					missing = append(missing, f)
				}
			}
			sort.Strings(missing)
			a.note("R12", name+"/config-complete", d.Decl.Pos(), len(missing) > 0,
				sprintf("every path sets the same %d fields of the third-party back-off", len(all)),
				sprintf("a path leaves %v at the third-party default although other paths set it: the configured behaviour (e.g. 'never stop retrying') silently depends on which branch ran", missing), x.p)
		}
	}
	if n == 0 {
		c.MissingAnchor("R12", "backoff.construct* functions")
	}
}

// retryOption: an option constructor that builds a (stateful) back-off from a configuration does so
// inside the function that is applied to a container — once per container — and not once when the
// option value is made: containers that share an option must not share one back-off state.
func (s *sup) retryOption() {
	c, a := s.c, s.a
	for _, d := range pkgDecls(c, s.pkg) {
		d := d
		if !d.Obj.Exported() || d.Decl.Recv != nil {
			continue
		}
		// an option built from a *backoff.Backoff configuration switches retrying off (stores nil)
		// only when that configuration is nil — the documented way to disable it
		if cfg := paramWhere(d, func(t types.Type) bool {
			pt, ok := t.(*types.Pointer)
			if !ok {
				return false
			}
			n, ok := pt.Elem().(*types.Named)
			return ok && n.Obj().Name() == "Backoff" && n.Obj().Pkg() != nil && strings.HasSuffix(n.Obj().Pkg().Path(), "/backoff")
		}); cfg != nil {
			name := core.FuncName(d.Obj)
			cfgNil := eq("nil", c.Role(cfg))
			judge := func(lits []*r2Lit, ev *core.Event, p *core.Path) {
				if ev.Kind == core.KAssign && !ev.FieldInit && ev.Var != nil && ev.Var.IsField() && ev.Rhs != nil && isNilExpr(ev.Rhs, ev.Frame) {
					ok, _ := implies(lits, cfgNil)
					a.note("R12", name+"/retry-disabled-only-for-nil-config", ev.Pos, !ok,
						"the option stores nil (no retry) only when the configuration is nil",
						"the option switches retrying off on a path that has not established a nil configuration ("+litsString(lits)+"): a valid configuration (for instance one that leaves the kind at its default) silently disables retry, and a failed routine is never run again", p)
				}
			}
			c.Walk("R12", &core.Config{}, core.Entry{Decl: d}, func(p *core.Path) {
				g := prepare(c, p)
				for i, ev := range p.Events {
					judge(g.litsBefore(i, false), ev, p)
					if ev.Kind == core.KFuncLitVal && ev.Val.Kind == core.VFuncLit {
						outer := g.litsBefore(i, false)
						lit := ev.Val.Lit
						c.Walk("R12", &core.Config{}, core.Entry{Lit: lit, Pkg: d.Pkg, Outer: d, Name: name + ".option"}, func(q *core.Path) {
							gq := prepare(c, q)
							for j, qe := range q.Events {
								judge(append(append([]*r2Lit(nil), outer...), gq.litsBefore(j, false)...), qe, q)
							}
						})
					}
				}
			})
		}
		// the back-off is constructed when the option is APPLIED (inside the function handed out), not on
		// the path that builds the option value: judged on the constructor's own paths, helpers walked in place
		isConstruct := func(d *core.FuncDecl, n ast.Node) bool {
			call, ok := n.(*ast.CallExpr)
			if !ok {
				return false
			}
			if _, is := callSel(call, "Construct"); !is {
				return false
			}
			f, _ := typeutil.Callee(d.Pkg.TypesInfo, call).(*types.Func)
			return f != nil && f.Pkg() != nil && strings.HasSuffix(f.Pkg().Path(), "/backoff")
		}
		if bodyOrCalleesMatch(c, d, isConstruct, 2) {
			name := core.FuncName(d.Obj)
			c.Walk("R12", &core.Config{Follow: helperFollow(s.pkg, "start", "execute")}, core.Entry{Decl: d}, func(p *core.Path) {
				early := token.NoPos
				for _, ev := range p.Events {
					if ev.Kind == core.KCall && ev.Callee != nil && ev.Callee.Name() == "Construct" && ev.Callee.Pkg() != nil && strings.HasSuffix(ev.Callee.Pkg().Path(), "/backoff") {
						early = ev.Pos
					}
				}
				a.note("R12", name+"/backoff-constructed-per-container", d.Decl.Pos(), early.IsValid(),
					"the back-off is constructed inside the option function, once per container it is applied to",
					"the back-off is constructed ("+c.Prog.Pos(early)+") when the option value is made: every container the option is applied to shares one back-off state, so one routine's failures and successes change another's retry interval", p)
			})
		}
	}
}

// helperFollow: walk the unexported helpers of the package in place (a method split into a lock-taking
// wrapper and an xLocked helper is judged as one), except the named ones.
func helperFollow(pkg string, except ...string) func(*types.Func) bool {
	return func(f *types.Func) bool {
		if f.Pkg() == nil || RelPkg(f.Pkg().Path()) != pkg || f.Exported() {
			return false
		}
		for _, e := range except {
			if f.Name() == e {
				return false
			}
		}
		return true
	}
}
