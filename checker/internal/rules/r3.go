package rules

import (
	"go/ast"
	"go/token"
	"go/types"
	"sort"
	"strings"

	"golang.org/x/tools/go/types/typeutil"

	"utilverif/internal/core"
)

// R3 — exit-channel chain (DESIGN.md §3 R3): runners wait for their predecessor before calling the
// user function and before closing their own exit channel; starters hand a fresh channel to the
// runner and store it; every start site forwards the predecessor's channel; a record that is
// detached from its slot does not take its exit channel with it.

func init() {
	register(&Rule{ID: "R3", Text: r3Text, Run: runR3})
}

const r3Text = `R3 exit-channel chain. A runner is a function started with go that closes one channel parameter E and receives from another, W. R3a: on every path of a runner on which W is not known to be nil, a receive from W precedes the call of the user function and precedes close(E). R3c: the function that spawns a runner passes a channel freshly made in the same invocation as E, stores that channel in a chain field, and does both without leaving the critical section in between. R3b: at every call of a starter the wait-channel argument derives from a read of a chain field (never the literal nil) and that read is not preceded on the path by a write of nil to the same field of the same record. R3d: on every path of an API function that overwrites or clears the slot holding a record while the old record is known to exist, a read of the old record's chain field reaches the wait argument of a start or is stored into a chain field; a container-level chain field is assigned only nil or chain values, and when a container has one, a start without a predecessor record passes it.`

type r3Runner struct {
	decl   *core.FuncDecl
	e, w   *types.Var
	ctx    *types.Var
	eIdx   int
	wIdx   int
	params []*types.Var
}

type r3Starter struct {
	decl   *core.FuncDecl
	runner *r3Runner
	wParam int // index of the parameter forwarded as W, -1 if the starter reads the chain field itself
}

type r3State struct {
	c        *Ctx
	runners  []*r3Runner
	starters map[*types.Func]*r3Starter
	cf       map[*types.Var]bool // chain fields (record level)
	cf2      map[*types.Var]bool // container-level chain fields
	slots    map[*types.Var]bool
	pkgs     map[string]bool
	agg      map[string]*Obligation
	order    []string
}

func paramVars(d *core.FuncDecl) []*types.Var {
	var out []*types.Var
	for _, f := range d.Decl.Type.Params.List {
		for _, n := range f.Names {
			v, _ := d.Pkg.TypesInfo.Defs[n].(*types.Var)
			out = append(out, v)
		}
		if len(f.Names) == 0 {
			out = append(out, nil)
		}
	}
	return out
}

func isChanType(t types.Type) bool {
	_, ok := t.Underlying().(*types.Chan)
	return ok
}

func isContextType(t types.Type) bool {
	n, ok := t.(*types.Named)
	return ok && n.Obj().Pkg() != nil && n.Obj().Pkg().Path() == "context" && n.Obj().Name() == "Context"
}

func (s *r3State) note(rule, construct string, pos token.Pos, bad bool, detail string, p *core.Path) {
	key := rule + "|" + construct
	o := s.agg[key]
	if o == nil {
		o = &Obligation{Rule: rule, Construct: construct, Pos: s.c.Prog.Pos(pos), Verdict: Discharged}
		s.agg[key] = o
		s.order = append(s.order, key)
	}
	o.Paths++
	if bad && o.Verdict == Discharged {
		o.Verdict = Violated
		o.Detail = detail
		o.Pos = s.c.Prog.Pos(pos)
		if p != nil {
			o.Witness = s.c.Prog.Witness(p)
		}
	} else if !bad && o.Verdict == Discharged && o.Detail == "" {
		o.Detail = detail
	}
}

func discoverRunners(c *Ctx) []*r3Runner {
	var out []*r3Runner
	for _, d := range c.declsInScope() {
		ps := paramVars(d)
		r := &r3Runner{decl: d, eIdx: -1, wIdx: -1, params: ps}
		for i, p := range ps {
			if p == nil {
				continue
			}
			if isContextType(p.Type()) && r.ctx == nil {
				r.ctx = p
			}
			if !isChanType(p.Type()) {
				continue
			}
			closes, recvs := false, false
			ast.Inspect(d.Decl.Body, func(n ast.Node) bool {
				switch x := n.(type) {
				case *ast.CallExpr:
					if id, ok := unparen(x.Fun).(*ast.Ident); ok && id.Name == "close" && len(x.Args) == 1 {
						if aid, ok := unparen(x.Args[0]).(*ast.Ident); ok && d.Pkg.TypesInfo.Uses[aid] == types.Object(p) {
							closes = true
						}
					}
				case *ast.UnaryExpr:
					if x.Op == token.ARROW {
						if aid, ok := unparen(x.X).(*ast.Ident); ok && d.Pkg.TypesInfo.Uses[aid] == types.Object(p) {
							recvs = true
						}
					}
				}
				// … or hands it to a same-package helper that receives from the corresponding parameter
				// (the wait for the predecessor extracted into a function)
				if call, ok := n.(*ast.CallExpr); ok {
					if f, _ := typeutil.Callee(d.Pkg.TypesInfo, call).(*types.Func); f != nil && f.Pkg() == d.Obj.Pkg() {
						if hd := c.Prog.Decl(f.Origin()); hd != nil && hd != d {
							hps := paramVars(hd)
							for ai, arg := range call.Args {
								aid, ok := unparen(arg).(*ast.Ident)
								if !ok || d.Pkg.TypesInfo.Uses[aid] != types.Object(p) || ai >= len(hps) || hps[ai] == nil {
									continue
								}
								hp := hps[ai]
								ast.Inspect(hd.Decl.Body, func(m ast.Node) bool {
									if u, ok := m.(*ast.UnaryExpr); ok && u.Op == token.ARROW {
										if id, ok := unparen(u.X).(*ast.Ident); ok && hd.Pkg.TypesInfo.Uses[id] == types.Object(hp) {
											recvs = true
										}
									}
									return true
								})
							}
						}
					}
				}
				return true
			})
			if closes && r.eIdx < 0 {
				r.eIdx, r.e = i, p
			} else if recvs && r.wIdx < 0 {
				r.wIdx, r.w = i, p
			}
		}
		if r.eIdx >= 0 && r.wIdx >= 0 {
			out = append(out, r)
		}
	}
	// a function that hands two of its channel parameters on to a runner, at the runner's exit and wait
	// positions, is a runner itself (execute = runInstance + recordExit): the go statements name it
	for changed := true; changed; {
		changed = false
		known := map[*types.Func]*r3Runner{}
		for _, r := range out {
			known[r.decl.Obj] = r
		}
		for _, d := range c.declsInScope() {
			if known[d.Obj] != nil || d.Decl.Body == nil {
				continue
			}
			ps := paramVars(d)
			idxOf := func(e ast.Expr) int {
				id, ok := unparen(e).(*ast.Ident)
				if !ok {
					return -1
				}
				for i, p := range ps {
					if p != nil && d.Pkg.TypesInfo.Uses[id] == types.Object(p) && isChanType(p.Type()) {
						return i
					}
				}
				return -1
			}
			var wr *r3Runner
			ast.Inspect(d.Decl.Body, func(n ast.Node) bool {
				call, ok := n.(*ast.CallExpr)
				if !ok || wr != nil {
					return wr == nil
				}
				f, _ := typeutil.Callee(d.Pkg.TypesInfo, call).(*types.Func)
				if f == nil {
					return true
				}
				inner := known[f.Origin()]
				if inner == nil || inner.eIdx >= len(call.Args) || inner.wIdx >= len(call.Args) {
					return true
				}
				ei, wi := idxOf(call.Args[inner.eIdx]), idxOf(call.Args[inner.wIdx])
				if ei >= 0 && wi >= 0 {
					wr = &r3Runner{decl: d, eIdx: ei, e: ps[ei], wIdx: wi, w: ps[wi], params: ps}
					for _, p := range ps {
						if p != nil && isContextType(p.Type()) && wr.ctx == nil {
							wr.ctx = p
						}
					}
				}
				return true
			})
			if wr != nil {
				out = append(out, wr)
				changed = true
			}
		}
	}
	return out
}

func runR3(c *Ctx) {
	if c.Scope == nil {
		c.Scope = map[string]bool{"routine": true, "keyed": true, "refcount": true}
	}
	s := &r3State{c: c, starters: map[*types.Func]*r3Starter{}, cf: map[*types.Var]bool{}, cf2: map[*types.Var]bool{},
		slots: map[*types.Var]bool{}, pkgs: map[string]bool{}, agg: map[string]*Obligation{}}
	s.runners = discoverRunners(c)
	byObj := map[*types.Func]*r3Runner{}
	for _, r := range s.runners {
		byObj[r.decl.Obj] = r
		s.pkgs[r.decl.Pkg.PkgPath] = true
	}
	// R3a
	for _, r := range s.runners {
		s.r3a(r)
	}
	// starters: declared functions containing `go runner(...)`
	for _, d := range c.declsInScope() {
		ast.Inspect(d.Decl.Body, func(n ast.Node) bool {
			g, ok := n.(*ast.GoStmt)
			if !ok {
				return true
			}
			f, _ := typeutil.Callee(d.Pkg.TypesInfo, g.Call).(*types.Func)
			if f == nil {
				return true
			}
			if r := byObj[f.Origin()]; r != nil {
				st := &r3Starter{decl: d, runner: r, wParam: -1}
				if r.wIdx < len(g.Call.Args) {
					if id, ok := unparen(g.Call.Args[r.wIdx]).(*ast.Ident); ok {
						for i, p := range paramVars(d) {
							if p != nil && d.Pkg.TypesInfo.Uses[id] == types.Object(p) {
								st.wParam = i
							}
						}
					}
				}
				s.starters[d.Obj] = st
			}
			return true
		})
	}
	var sts []*r3Starter
	for _, st := range s.starters {
		sts = append(sts, st)
	}
	sort.Slice(sts, func(i, j int) bool { return sts[i].decl.Decl.Pos() < sts[j].decl.Decl.Pos() })
	for _, st := range sts {
		s.r3c(st)
	}
	// container-level chain fields and slots
	for _, pkg := range c.Prog.Pkgs {
		if !s.pkgs[pkg.PkgPath] {
			continue
		}
		scope := pkg.Types.Scope()
		for _, name := range scope.Names() {
			tn, ok := scope.Lookup(name).(*types.TypeName)
			if !ok {
				continue
			}
			stt, ok := tn.Type().Underlying().(*types.Struct)
			if !ok {
				continue
			}
			for i := 0; i < stt.NumFields(); i++ {
				f := stt.Field(i)
				if ch, ok := f.Type().Underlying().(*types.Chan); ok && !s.cf[f] {
					if st, ok := ch.Elem().Underlying().(*types.Struct); ok && st.NumFields() == 0 && hasRecordSlot(stt, s.cf) {
						s.cf2[f] = true
					}
				}
				if recordOf(f.Type(), s.cf) {
					s.slots[f] = true
				}
			}
		}
	}
	s.apiWalks()
	for _, k := range s.order {
		c.Add(s.agg[k])
	}
	var names []string
	for f := range s.cf {
		names = append(names, core.FieldName(f))
	}
	for f := range s.cf2 {
		names = append(names, core.FieldName(f)+"(container)")
	}
	sort.Strings(names)
	c.Notes = append(c.Notes, sprintf("R3: %d runners, %d starters, chain fields: %s", len(s.runners), len(s.starters), strings.Join(names, ", ")))
}

// recordOf reports whether t is *R or map[K]*R with R a struct owning a chain field.
func recordOf(t types.Type, cf map[*types.Var]bool) bool {
	if m, ok := t.Underlying().(*types.Map); ok {
		t = m.Elem()
	}
	p, ok := t.Underlying().(*types.Pointer)
	if !ok {
		return false
	}
	st, ok := p.Elem().Underlying().(*types.Struct)
	if !ok {
		return false
	}
	for i := 0; i < st.NumFields(); i++ {
		if cf[st.Field(i).Origin()] {
			return true
		}
	}
	return false
}

func hasRecordSlot(st *types.Struct, cf map[*types.Var]bool) bool {
	for i := 0; i < st.NumFields(); i++ {
		if recordOf(st.Field(i).Type(), cf) {
			return true
		}
	}
	return false
}

// nilTest interprets a branch event as a nil test of variable v: returns (isTest, vIsNil).
func nilTest(ev *core.Event, v *types.Var) (bool, bool) {
	b, ok := unparen(ev.Cond).(*ast.BinaryExpr)
	if !ok || (b.Op != token.EQL && b.Op != token.NEQ) {
		return false, false
	}
	var other ast.Expr
	// (a parameter of an inlined helper bound to v stands for v)
	if identVar(b.X, ev.Frame) == v || aliasOf(nil, ev, b.X) == v {
		other = b.Y
	} else if identVar(b.Y, ev.Frame) == v || aliasOf(nil, ev, b.Y) == v {
		other = b.X
	} else {
		return false, false
	}
	if !isNilExpr(other, ev.Frame) {
		return false, false
	}
	return true, ev.CondVal == (b.Op == token.EQL)
}

func (s *r3State) r3a(r *r3Runner) {
	c := s.c
	name := core.FuncName(r.decl.Obj)
	// unexported same-package helpers are walked in place (the wait may live in one); a parameter of
	// such a helper bound to the runner's W stands for W
	cfg := &core.Config{Follow: func(f *types.Func) bool {
		if f.Pkg() != r.decl.Obj.Pkg() || f.Exported() || f.Origin() == r.decl.Obj {
			return false
		}
		sig, ok := f.Type().(*types.Signature)
		if !ok {
			return false
		}
		for i := 0; i < sig.Params().Len(); i++ {
			if isChanType(sig.Params().At(i).Type()) {
				return true // a helper that is handed a channel: the wait for the predecessor may live there
			}
		}
		return false
	}}
	c.Walk("R3a", cfg, core.Entry{Decl: r.decl}, func(p *core.Path) {
		received, wNil := false, false
		for _, ev := range p.Events {
			switch ev.Kind {
			case core.KBranch:
				if is, isNil := nilTest(ev, r.w); is && isNil {
					wNil = true
				}
			case core.KRecv:
				if identVar(ev.Chan, ev.Frame) == r.w || aliasOf(p, ev, ev.Chan) == r.w {
					received = true
				}
			case core.KCall:
				// the user function: a dynamic call that is handed the runner's context
				if ev.Callee != nil || ev.Builtin != "" || r.ctx == nil {
					continue
				}
				usesCtx := false
				for _, a := range ev.Call.Args {
					if identVar(a, ev.Frame) == r.ctx {
						usesCtx = true
					}
				}
				if !usesCtx {
					continue
				}
				bad := !received && !wNil
				d := "every path to the user function has received from " + r.w.Name() + " or established that it is nil"
				if bad {
					d = "the user function is called on a path without a completed receive from " + r.w.Name()
				}
				s.note("R3a", name+"/user-call("+core.ExprString(ev.Call.Fun)+")", ev.Pos, bad, d, p)
			case core.KClose:
				if identVar(ev.Chan, ev.Frame) != r.e {
					continue
				}
				bad := !received && !wNil
				d := "close(" + r.e.Name() + ") is reached on a path on which " + r.w.Name() + " may be non-nil and was not received from: the successor can start while a predecessor is still running"
				if !bad {
					d = "every path to close(" + r.e.Name() + ") has received from " + r.w.Name() + " or established that it is nil"
				}
				s.note("R3a", name+"/close("+r.e.Name()+")", ev.Pos, bad, d, p)
			}
		}
	})
}

func isMakeChan(e ast.Expr, info *types.Info) bool {
	call, ok := unparen(e).(*ast.CallExpr)
	if !ok {
		return false
	}
	id, ok := unparen(call.Fun).(*ast.Ident)
	if !ok {
		return false
	}
	b, ok := info.Uses[id].(*types.Builtin)
	return ok && b.Name() == "make" && len(call.Args) >= 1 && isChanType(info.TypeOf(call.Args[0]))
}

func (s *r3State) r3c(st *r3Starter) {
	c := s.c
	name := core.FuncName(st.decl.Obj)
	r := st.runner
	c.Walk("R3c", &core.Config{}, core.Entry{Decl: st.decl}, func(p *core.Path) {
		for gi, ev := range p.Events {
			if ev.Kind != core.KGo || ev.Callee != r.decl.Obj {
				continue
			}
			eArg := ev.Call.Args[r.eIdx]
			ev0 := identVar(eArg, ev.Frame)
			ok := ev0 != nil
			why := ""
			if !ok {
				why = "the exit channel argument is not a local variable"
			}
			var stored *types.Var
			storeIdx := -1
			if ok {
				fresh := false
				for i := gi - 1; i >= 0; i-- {
					a := p.Events[i]
					if a.Kind == core.KAssign && identVar(a.Lhs, a.Frame) == ev0 {
						fresh = a.Rhs != nil && isMakeChan(a.Rhs, a.Frame.Info())
						break
					}
				}
				if !fresh {
					ok, why = false, "the exit channel passed to the runner is not a channel made in this invocation"
				}
				for i, a := range p.Events {
					if a.Kind == core.KAssign && !a.FieldInit && a.Var != nil && a.Var.IsField() && a.Rhs != nil && identVar(a.Rhs, a.Frame) == ev0 {
						stored, storeIdx = a.Var, i
					}
				}
				if ok && stored == nil {
					ok, why = false, "the fresh exit channel is not stored in a field of the record/container: the next start cannot wait for this instance"
				}
			}
			if ok {
				lo, hi := storeIdx, gi
				if lo > hi {
					lo, hi = hi, lo
				}
				for _, b := range p.Events[lo:hi] {
					if b.Kind == core.KRelease || b.Kind == core.KAcquire {
						ok, why = false, "the store of the exit channel and the go statement are not in the same critical section"
					}
				}
			}
			if ok {
				s.cf[stored.Origin()] = true
			}
			// W argument inside the starter when it is not a parameter
			if ok && st.wParam < 0 {
				wArg := ev.Call.Args[r.wIdx]
				wv := identVar(wArg, ev.Frame)
				prov := false
				if wv != nil {
					for i := gi - 1; i >= 0; i-- {
						a := p.Events[i]
						if a.Kind == core.KAssign && identVar(a.Lhs, a.Frame) == wv {
							prov = a.Rhs != nil && fieldVar(a.Rhs, a.Frame) == stored.Origin() && i < storeIdx
							break
						}
					}
				}
				if !prov {
					ok, why = false, "the wait channel handed to the runner is not the previous value of "+core.FieldName(stored)+" read before it is overwritten"
				}
			}
			d := why
			if ok {
				d = "fresh make(chan) passed as " + r.e.Name() + ", stored in " + core.FieldName(stored) + ", same section"
			}
			s.note("R3c", name+"/go "+core.FuncName(r.decl.Obj), ev.Pos, !ok, d, p)
		}
	})
}

func enclosingName(c *Ctx, ev *core.Event) string {
	for f := ev.Frame; f != nil; f = f.Parent {
		if f.Fn != nil {
			return core.FuncName(f.Fn)
		}
	}
	if d := c.Prog.EnclosingDecl(ev.Pos); d != nil {
		return core.FuncName(d.Obj) + ".func"
	}
	return "?"
}

// apiWalks runs R3b and R3d over the API functions of the runner packages.
func (s *r3State) apiWalks() {
	c := s.c
	follow := func(f *types.Func) bool {
		if f.Pkg() == nil || !s.pkgs[f.Pkg().Path()] {
			return false
		}
		for _, r := range s.runners {
			if r.decl.Obj == f.Origin() {
				return false
			}
		}
		return true
	}
	var entries []core.Entry
	for _, d := range c.declsInScope() {
		if !s.pkgs[d.Pkg.PkgPath] {
			continue
		}
		if d.Obj.Exported() && d.Decl.Recv != nil {
			entries = append(entries, core.Entry{Decl: d})
		}
		// timer callbacks
		d := d
		ei := core.EscapesOf(c.Prog, d)
		ast.Inspect(d.Decl.Body, func(n ast.Node) bool {
			call, ok := n.(*ast.CallExpr)
			if !ok {
				return true
			}
			f, _ := typeutil.Callee(d.Pkg.TypesInfo, call).(*types.Func)
			if f == nil || f.Pkg() == nil || f.Pkg().Path() != "time" || f.Name() != "AfterFunc" || len(call.Args) != 2 {
				return true
			}
			var lits []*ast.FuncLit
			if l, ok := unparen(call.Args[1]).(*ast.FuncLit); ok {
				lits = append(lits, l)
			} else if id, ok := unparen(call.Args[1]).(*ast.Ident); ok {
				lits = ei.Bound[d.Pkg.TypesInfo.Uses[id]]
			}
			for _, l := range lits {
				entries = append(entries, core.Entry{Lit: l, Pkg: d.Pkg, Outer: d, Name: core.FuncName(d.Obj) + ".timer@" + c.Prog.Pos(l.Pos())})
			}
			return true
		})
	}
	isSource := func(f *types.Var) bool { return s.cf[f] || s.cf2[f] }
	for _, e := range entries {
		cfg := &core.Config{Follow: follow, Unroll: 1}
		c.Walk("R3b", cfg, e, func(p *core.Path) { s.apiPath(p, isSource) })
	}
}

func (s *r3State) apiPath(p *core.Path, isSource func(*types.Var) bool) {
	c := s.c
	fl := newFlow(c.Prog, isSource)
	nilWritten := map[string]int{} // base.field -> event index of the nil write
	sunk := map[*flowSource]bool{}
	slotLocal := map[*types.Var]bool{}
	okVar := map[*types.Var]*types.Var{} // comma-ok bool -> record local
	nonNil := map[*types.Var]bool{}
	freshCh := map[*types.Var]bool{} // channel locals holding a channel made on this path
	type slotWrite struct {
		ev *core.Event
	}
	var slotWrites []slotWrite
	var allSources []*flowSource
	sink := func(t taint) {
		for src := range t {
			sunk[src] = true
		}
	}
	hasCF2 := func(fr *core.Frame) *types.Var {
		// the container-level chain field of the package the event is in
		for f := range s.cf2 {
			if f.Pkg() == fr.Pkg.Types {
				return f
			}
		}
		return nil
	}
	for i, ev := range p.Events {
		// sources are created by taintOf; remember them for the end-of-path check
		switch ev.Kind {
		case core.KBranch:
			if b, ok := unparen(ev.Cond).(*ast.BinaryExpr); ok && (b.Op == token.EQL || b.Op == token.NEQ) {
				for _, side := range []ast.Expr{b.X, b.Y} {
					if v := identVar(side, ev.Frame); v != nil && slotLocal[v] {
						if is, isNil := nilTest(ev, v); is && !isNil {
							nonNil[v] = true
						}
					}
				}
			} else if v := identVar(ev.Cond, ev.Frame); v != nil {
				if rec := okVar[v]; rec != nil && ev.CondVal {
					nonNil[rec] = true
				}
			}
			// a chain value established to be nil has nothing to retain
			if b, ok := unparen(ev.Cond).(*ast.BinaryExpr); ok {
				for _, side := range []ast.Expr{b.X, b.Y} {
					if v := identVar(side, ev.Frame); v != nil {
						if is, isNil := nilTest(ev, v); is && isNil {
							sink(fl.locals[v])
						}
					}
				}
			}
		case core.KAssign:
			if ev.FieldInit {
				break
			}
			// locals assigned from a slot read
			if lv := identVar(ev.Lhs, ev.Frame); lv != nil && !lv.IsField() && ev.Rhs != nil {
				rhs := unparen(ev.Rhs)
				if ix, ok := rhs.(*ast.IndexExpr); ok {
					rhs = unparen(ix.X)
				}
				if f := fieldVar(rhs, ev.Frame); f != nil && s.slots[f] {
					if ev.RhsIdx <= 0 {
						slotLocal[lv] = true
						nonNil[lv] = false
					} else if ev.RhsIdx == 1 && i > 0 {
						if prev := p.Events[i-1]; prev.Kind == core.KAssign && prev.Node == ev.Node {
							if rv := identVar(prev.Lhs, prev.Frame); rv != nil {
								okVar[lv] = rv
							}
						}
					}
				} else if slotLocal[lv] && ev.RhsIdx < 0 {
					// the local now holds another record (v = newRunningRoutine(...)): keep the
					// non-nil fact of the old record, its reads were made under the same name
				}
			}
			if ev.Var != nil && ev.Var.IsField() {
				fv := ev.Var.Origin()
				base := ""
				if sel, ok := unparen(ev.Lhs).(*ast.SelectorExpr); ok {
					base = fl.key(sel.X, ev.Frame)
				}
				if isSource(fv) {
					t := taint(nil)
					isNil := false
					if ev.Rhs != nil && ev.RhsIdx < 0 {
						t = fl.taintOf(ev.Rhs, ev.Frame, ev)
						isNil = isNilExpr(ev.Rhs, ev.Frame)
						if rv := identVar(ev.Rhs, ev.Frame); rv != nil && fl.nilLocal[rv] && len(t) == 0 {
							isNil = true
						}
					}
					for src := range t {
						allSources = append(allSources, src)
					}
					sink(t)
					if isNil {
						nilWritten[base+"."+fv.Name()] = i
					} else {
						delete(nilWritten, base+"."+fv.Name())
					}
					if s.cf2[fv] && !isNil && len(t) == 0 {
						s.note("R3d", enclosingName(c, ev)+"/"+core.FieldName(fv)+"=non-chain", ev.Pos, true,
							"the container-level chain field is assigned a value that does not derive from a chain field", p)
					} else if s.cf2[fv] {
						s.note("R3d", enclosingName(c, ev)+"/"+core.FieldName(fv)+"=chain", ev.Pos, false, "assigned nil or a chain value", p)
					}
				}
				if s.slots[fv] {
					// writing the same record back is not a detach
					slotWrites = append(slotWrites, slotWrite{ev})
				}
			}
		case core.KEnter, core.KCall:
			if ev.Callee == nil {
				break
			}
			st := s.starters[ev.Callee]
			if st == nil || st.wParam < 0 || st.wParam >= len(ev.Call.Args) {
				break
			}
			arg := ev.Call.Args[st.wParam]
			fl.idx = i
			t := fl.taintOf(arg, ev.Frame, ev)
			for src := range t {
				allSources = append(allSources, src)
			}
			construct := enclosingName(c, ev) + "/" + st.decl.Obj.Name() + "(wait=" + core.ExprString(arg) + ")"
			bad, why := false, "the wait argument derives from a chain field"
			switch {
			case isNilExpr(arg, ev.Frame):
				bad, why = true, "the literal nil is passed as the wait channel: the new instance does not wait for any predecessor"
			case len(t) == 0:
				av := identVar(arg, ev.Frame)
				anyRecord := false
				for v, nn := range nonNil {
					if nn && slotLocal[v] {
						anyRecord = true
					}
				}
				switch {
				case av != nil && fl.nilLocal[av] && !anyRecord && hasCF2(ev.Frame) == nil:
					why = "no predecessor record exists on this path and the container has no container-level chain field: nil is correct"
				case av != nil && fl.nilLocal[av] && !anyRecord:
					bad, why = true, "no predecessor record exists on this path but the wait argument does not come from "+core.FieldName(hasCF2(ev.Frame))
				default:
					bad, why = true, "the wait argument does not derive from any chain field although a predecessor may exist"
				}
			default:
				for src := range t {
					if j, ok := nilWritten[src.Base+"."+src.Field.Name()]; ok && j < src.Idx {
						bad, why = true, sprintf("the chain field %s is read at %s after it was set to nil at %s on the same path: the predecessor's exit channel is lost",
							core.FieldName(src.Field), c.Prog.Pos(src.Ev.Pos), c.Prog.Pos(p.Events[j].Pos))
					}
				}
				sink(t)
			}
			s.note("R3b", construct, ev.Pos, bad, why, p)
		case core.KReturn:
			// returning a chain value to the caller is not retention, but keep the sources known.
			// What an exported method returns as "closed when the earlier instances have returned" is a
			// chain value (or nil), never a channel made on this path: a fresh (closed) channel says the
			// predecessors are gone while a detached one may still be executing
			if ev.Frame.Parent == nil && ev.Frame.Fn != nil && ev.Frame.Fn.Exported() {
				for _, r := range returnExprs(p, i) {
					if v := identVar(r, ev.Frame); v != nil && !v.IsField() && isChanType(v.Type()) {
						s.note("R3e", core.FuncName(ev.Frame.Fn)+"/returned-channel-is-chain-value", ev.Pos, freshCh[v],
							"the channel returned to the caller was made on this path instead of being taken from the chain of exit channels: it can be closed while an earlier (detached) instance is still executing", p)
					}
				}
			}
		}
		// channels made on this path, followed through locals and helper results
		if ev.Kind == core.KAssign && !ev.FieldInit {
			if lv := identVar(ev.Lhs, ev.Frame); lv != nil && !lv.IsField() && isChanType(lv.Type()) {
				fresh := false
				if ev.RetEv != nil {
					if _, rv := retResult(ev.RetEv, ev.RhsIdx); rv != nil && freshCh[rv] {
						fresh = true
					}
				} else if ev.Rhs != nil && ev.RhsIdx < 0 {
					if call, ok := unparen(ev.Rhs).(*ast.CallExpr); ok {
						if id, ok := unparen(call.Fun).(*ast.Ident); ok && id.Name == "make" {
							fresh = true
						}
					}
					if rv := identVar(ev.Rhs, ev.Frame); rv != nil && freshCh[rv] {
						fresh = true
					}
				}
				freshCh[lv] = fresh
			}
		}
		fl.step(i, ev)
		// collect sources created by local assignments (taints of locals)
		if ev.Kind == core.KAssign && !ev.FieldInit {
			if lv := identVar(ev.Lhs, ev.Frame); lv != nil {
				for src := range fl.locals[lv] {
					allSources = append(allSources, src)
				}
			}
		}
	}
	// R3d: a remembered (container-level) exit channel that this path read out of its field and
	// then overwrote must have been forwarded to a start or stored back, unless it was shown nil
	overwritten := map[*types.Var]int{}
	for i, ev := range p.Events {
		if ev.Kind == core.KAssign && !ev.FieldInit && ev.Var != nil && s.cf2[ev.Var.Origin()] {
			overwritten[ev.Var.Origin()] = i
		}
	}
	seenSrc := map[*flowSource]bool{}
	for _, src := range allSources {
		if seenSrc[src] || !s.cf2[src.Field] {
			continue
		}
		seenSrc[src] = true
		if w, ok := overwritten[src.Field]; ok && w > src.Idx {
			construct := enclosingName(c, src.Ev) + "/remembered(" + core.FieldName(src.Field) + ")"
			s.note("R3d", construct, src.Ev.Pos, !sunk[src] && !fl.superseded[src],
				"the exit channel remembered in "+core.FieldName(src.Field)+" is read and the field is then overwritten, but on this path the value read is neither handed to a start nor stored back (nor shown nil): a later routine no longer waits for the instance it stood for", p)
		}
	}
	// R3d: a record's chain field cleared on an API path: the value it held was read before the clear
	// and forwarded (to a start's wait argument or into a chain field) or shown nil — on every path
	// that returns, also the one that bails out after the clear
	if p.End == core.EndReturn {
		for key, j := range nilWritten {
			ev := p.Events[j]
			if ev.Var == nil || !s.cf[ev.Var.Origin()] || s.cf2[ev.Var.Origin()] {
				continue
			}
			forwarded := false
			for _, src := range allSources {
				if src.Base+"."+src.Field.Name() == key && src.Idx < j && sunk[src] {
					forwarded = true
				}
			}
			construct := enclosingName(c, ev) + "/clear(" + core.FieldName(ev.Var.Origin()) + ")"
			s.note("R3d", construct, ev.Pos, !forwarded,
				"the chain field "+core.FieldName(ev.Var.Origin())+" is set to nil on a path that does not hand the value it held to a start or store it in a chain field (nor show it nil): if the instance it stood for is still returning, the next start no longer waits for it", p)
		}
	}
	// R3d: detach without retention
	for _, sw := range slotWrites {
		ev := sw.ev
		for v, nn := range nonNil {
			if !nn || !slotLocal[v] {
				continue
			}
			// the write stores the old record itself back?
			if ev.Rhs != nil && identVar(ev.Rhs, ev.Frame) == v && false {
				continue
			}
			key := v.Name() + "#" + itoa(c.Prog.ObjID(v))
			retained := false
			for _, src := range allSources {
				if s.cf[src.Field] && src.Base == key && sunk[src] {
					retained = true
				}
			}
			construct := enclosingName(c, ev) + "/detach(" + core.FieldName(ev.Var) + ")"
			why := "the old record's exit channel reaches the successor's start or a chain field"
			if !retained {
				why = "the record " + v.Name() + " is taken out of " + core.FieldName(ev.Var) + " while it exists, and its exit channel is neither passed to a start nor stored in a chain field on this path: a later start cannot wait for it"
			}
			s.note("R3d", construct, ev.Pos, !retained, why, p)
		}
	}
}

func itoa(i int) string { return sprintf("%d", i) }
