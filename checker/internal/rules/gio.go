package rules

import (
	"go/ast"
	"go/token"
	"go/types"
	"strings"

	"golang.org/x/tools/go/types/typeutil"

	"utilverif/internal/core"
)

func init() {
	register(&Rule{ID: "Gio", Text: gioText, Run: runGio})
	register(&Rule{ID: "Gcodec", Text: gcodecText, Run: runGcodec})
	register(&Rule{ID: "Gqueue", Text: gqueueText, Run: runGqueue})
}

const gioText = `R15/R13c sequential helpers. ioseek: Seek stores the new offset exactly when it is neither negative nor beyond size, and every error return precedes the store; Read advances the offset by the returned count on every path. iosizer: Read/Write add to the total exactly the count they return, under count > 0. iocloser: Close detaches the stream and the close function inside the critical section on every path and calls the saved function outside it under a nil test; Read/Write test the stream for nil inside the section and use it only there. ioproxy: ProxyStreams starts two pumps with swapped arguments; a pump closes both streams and calls the callback (under a nil test) exactly once on every path. unique: every trip through a mutator's loop either leaves the entry alone after the comparison said "equal"/"absent", or performs exactly one store/delete followed by exactly one changed() call whose flags match the branch.`

const gcodecText = `R14 codecs. padding.UnpadInPlace: every index/slice of the received parameter that uses len(data)-k is dominated by a test that excludes len(data) < k, and the padding length read from the data is compared with len(data) before it is used as a bound. commonprefix: no conversion string(b) of a byte (it encodes a rune). prng: no nondeterministic source (time, crypto/rand, os, top-level math/rand functions, map iteration) is reachable from the seeded constructors and Read; the reader's state fields are written only in Read.`

const gqueueText = `R10 lock-free and atomic-section shape. AtomicLIFO.Push/Pop: every CompareAndSwap on top has as its old argument the value loaded from top in the same loop iteration; Push links newNode.next to that same loaded value in that iteration before the CAS; Pop reads next from the loaded node before the CAS, returns only on CAS success (or when the load was nil) and returns the value of the node it swapped out; node fields are not written after a successful CAS. LinkedList: every exported method consists of exactly one critical section of mtx (write mode) that contains all its accesses to head/tail/elements.`

func runGio(c *Ctx) {
	a := newAgg(c)
	defer a.flush()
	// --- ioseek
	if d := c.declByName("R15", "ioseek", "ReaderAtSeeker", "Seek"); d != nil {
		name := core.FuncName(d.Obj)
		const off = "ioseek.ReaderAtSeeker.offset"
		want := fand(fnot(lt("newOffset", "0")), fnot(lt("ioseek.ReaderAtSeeker.size", "newOffset")))
		type sp struct {
			lits []*r2Lit
			did  bool
			p    *core.Path
		}
		var sps []sp
		c.Walk("R15", &core.Config{Follow: samePkgFollow(d.Pkg.PkgPath)}, core.Entry{Decl: d}, func(p *core.Path) {
			g := prepare(c, p)
			did := false
			for i, ev := range p.Events {
				if assignsField(ev, off, "") {
					did = true
					// the guard is about the value that is stored, whatever it is called
					w := want
					if t, ok := (&gbuilder{c: c, defs: g.defs[i], sec: g.sec[i]}).term(ev.Rhs, ev.Frame); ok {
						w = fand(fnot(lt(t, "0")), fnot(lt("ioseek.ReaderAtSeeker.size", t)))
					}
					a.requireGuard("R15", name+"/store-validated-offset", g, i, false, w, "storing the new offset")
				}
				if ev.Kind == core.KReturn && ev.Frame.Parent == nil && len(ev.Results) == 2 && !isNilExpr(ev.Results[1], ev.Frame) {
					a.note("R15", name+"/error-leaves-position", ev.Pos, did, "error returns leave the offset untouched", "an error is returned after the offset was already changed", p)
				}
			}
			if p.End == core.EndReturn {
				sps = append(sps, sp{g.litsBefore(len(p.Events), false), did, p})
			}
		})
		for _, s := range sps {
			if s.did {
				continue
			}
			// a path that compared the candidate offset must have found it out of range
			compared, outOfRange := false, false
			for _, l := range s.lits {
				str := l.f.String()
				if strings.HasPrefix(str, "LT(") && (strings.HasSuffix(str, ",0)") || strings.HasPrefix(str, "LT(ioseek.ReaderAtSeeker.size,")) {
					compared = true
					if l.val {
						outOfRange = true
					}
				}
			}
			if !compared {
				continue
			}
			a.note("R15", name+"/store-validated-offset/complete", d.Decl.Pos(), !outOfRange, "a path that does not store the offset has found it negative or beyond size",
				sprintf("a path that leaves the offset alone found the candidate offset in range (conditions: %s): a valid Seek fails", litsString(s.lits)), s.p)
		}
		a.expect("R15", name+"/store-validated-offset", 1, "r.offset = newOffset")
	}
	if d := c.declByName("R15", "ioseek", "ReaderAtSeeker", "Read"); d != nil {
		name := core.FuncName(d.Obj)
		c.Walk("R15", &core.Config{Follow: samePkgFollow(d.Pkg.PkgPath)}, core.Entry{Decl: d}, func(p *core.Path) {
			adv := false
			var count *types.Var
			for _, ev := range p.Events {
				// the count: the first result of the ReadAt call, whatever variable receives it
				if ev.Kind == core.KAssign && ev.RhsIdx == 0 && ev.Rhs != nil {
					if call, ok := unparen(ev.Rhs).(*ast.CallExpr); ok {
						if _, isReadAt := callSel(call, "ReadAt"); isReadAt {
							count = identVar(ev.Lhs, ev.Frame)
						}
					}
				}
				if ev.Kind == core.KAssign && ev.Var != nil && core.FieldName(ev.Var) == "ioseek.ReaderAtSeeker.offset" && ev.Rhs != nil {
					// offset += int64(n)   or   offset = offset + int64(n): the amount is (a conversion of) the count
					adv = false
					mentionsCount, mentionsOffset, onlyAdd := false, ev.Tok == token.ADD_ASSIGN, true
					ast.Inspect(ev.Rhs, func(n ast.Node) bool {
						switch x := n.(type) {
						case *ast.Ident:
							if count != nil && identVar(x, ev.Frame) == count {
								mentionsCount = true
							}
						case *ast.SelectorExpr:
							if fv := fieldVar(x, ev.Frame); fv != nil && core.FieldName(fv) == "ioseek.ReaderAtSeeker.offset" {
								mentionsOffset = true
							}
						case *ast.BinaryExpr:
							if x.Op != token.ADD {
								onlyAdd = false
							}
						}
						return true
					})
					adv = mentionsCount && mentionsOffset && onlyAdd && (ev.Tok == token.ADD_ASSIGN || ev.Tok == token.ASSIGN)
				}
			}
			if p.End == core.EndReturn {
				a.note("R15", name+"/advance-by-count", d.Decl.Pos(), !adv, "every path advances the offset by the number of bytes read", "a path returns without advancing the offset by the returned count (a short read that comes with an error still delivers bytes): the position falls behind the data handed out", p)
			}
		})
		a.expect("R15", name+"/advance-by-count", 1, "paths of Read")
	}
	// --- iosizer
	for _, fn := range []string{"Read", "Write"} {
		d := c.declByName("R15", "iosizer", "SizeReadWriter", fn)
		if d == nil {
			continue
		}
		name := core.FuncName(d.Obj)
		c.Walk("R15", &core.Config{Follow: samePkgFollow(d.Pkg.PkgPath)}, core.Entry{Decl: d}, func(p *core.Path) {
			g := prepare(c, p)
			// the count the call returns: the first result of its final return, looked through a
			// pass-through helper (return s.account(s.wtr.Write(p)))
			var retVar *types.Var
			if p.End == core.EndReturn {
				for i := len(p.Events) - 1; i >= 0 && retVar == nil; i-- {
					ev := p.Events[i]
					if ev.Kind != core.KReturn || ev.Frame.Parent != nil {
						continue
					}
					rs, rfr := returnExprs(p, i), ev.Frame
					for depth := 0; depth < 3 && len(rs) == 1; depth++ {
						call, isCall := unparen(rs[0]).(*ast.CallExpr)
						if !isCall {
							break
						}
						ri, inl := g.rets[call]
						if !inl {
							break
						}
						rs, rfr = returnExprs(p, ri), p.Events[ri].Frame
					}
					if len(rs) == 2 {
						retVar = identVar(rs[0], rfr)
					}
					break
				}
			}
			added, wrapped := false, -1
			for i, ev := range p.Events {
				if isAtomicCall(ev, "Add") {
					arg := core.ExprString(ev.Call.Args[0])
					isCount := false
					cnt := "?n"
					if conv, ok := unparen(ev.Call.Args[0]).(*ast.CallExpr); ok && len(conv.Args) == 1 {
						if v := identVar(conv.Args[0], ev.Frame); v != nil {
							cnt = g.builderAt(i).varTerm(v, ev.Frame)
							// through helper parameters the count keeps its identity by the inlining alias
							isCount = retVar != nil && (v == retVar || aliasOf(p, ev, conv.Args[0]) == retVar)
						}
					}
					if p.End == core.EndReturn {
						a.note("R15", name+"/adds-returned-count", ev.Pos, !isCount, "the total grows by the count that is returned", "the total grows by "+arg+", not by the count the call returns", p)
					}
					a.requireGuard("R15", name+"/adds-positive-count", g, i, false, lt("0", cnt), "adding to the total")
					added = true
				}
				if ev.Kind == core.KCall && ev.Callee != nil && ev.Frame.Parent == nil && (ev.Callee.Name() == "Read" || ev.Callee.Name() == "Write") && ev.Callee.Pkg() != nil && ev.Callee.Pkg().Path() == "io" {
					wrapped = i
				}
			}
			// ⇔: a path that called the wrapped stream and does not add has shown the count not positive
			// (whatever the error: a short read/write transfers bytes and reports an error)
			if wrapped >= 0 && !added && p.End == core.EndReturn {
				cnt := "?n"
				if retVar != nil {
					cnt = c.Role(retVar)
				}
				ok, _ := implies(g.litsBefore(len(p.Events), false), fnot(lt("0", cnt)))
				if !ok {
					ok, _ = implies(g.litsBefore(len(p.Events), false), lt("4294967295", cnt))
				}
				a.note("R15", name+"/adds-positive-count/complete", p.Events[wrapped].Pos, !ok,
					"a path that called the wrapped stream and does not add to the total has shown the returned count not positive (or out of range)",
					"a path returns the count of the wrapped call without adding it to the total although the count may be positive (a short transfer that also reports an error): the total falls behind the bytes transferred", p)
			}
		})
		a.expect("R15", name+"/adds-returned-count", 1, "total.Add in "+fn)
	}
	// --- iocloser
	for _, tn := range []struct{ typ, stream, io string }{{"ReadCloser", "rd", "Read"}, {"WriteCloser", "wr", "Write"}} {
		lock := "iocloser." + tn.typ + ".closeMtx"
		sf := "iocloser." + tn.typ + "." + tn.stream
		cf := "iocloser." + tn.typ + ".close"
		if d := c.declByName("R15", "iocloser", tn.typ, "Close"); d != nil {
			name := core.FuncName(d.Obj)
			c.Walk("R15", &core.Config{Follow: samePkgFollow(d.Pkg.PkgPath)}, core.Entry{Decl: d}, func(p *core.Path) {
				g := prepare(c, p)
				clearedS, clearedC := false, false
				for i, ev := range p.Events {
					if assignsField(ev, sf, "nil") && holdsLock(ev, lock) {
						clearedS = true
					}
					if assignsField(ev, cf, "nil") && holdsLock(ev, lock) {
						clearedC = true
					}
					if ev.Kind == core.KCall && ev.Callee == nil && ev.Builtin == "" {
						v := identVar(ev.Call.Fun, ev.Frame)
						if v == nil {
							a.note("R15", name+"/calls-saved-func", ev.Pos, true, "", "Close calls the close function through the field instead of the copy taken under the lock", p)
							continue
						}
						a.note("R15", name+"/calls-saved-func/outside-section", ev.Pos, holdsLock(ev, lock), "the saved close function runs outside the critical section", "the close function runs while closeMtx is held", p)
						a.requireGuard("R15", name+"/calls-saved-func/non-nil", g, i, false, fnot(eq(c.Role(v), "nil")), "calling the saved close function")
					}
				}
				if p.End == core.EndReturn {
					a.note("R15", name+"/detaches-stream-and-func", d.Decl.Pos(), !(clearedS && clearedC), "every path clears the stream and the close function under the lock",
						"a path of Close returns without clearing both the stream and the close function under the lock: Read/Write keep touching the wrapped stream after Close, or the close function can run twice", p)
				}
			})
			a.expect("R15", name+"/detaches-stream-and-func", 1, "paths of Close")
		}
		// the stream and the close function are detached by Close only: no path of any other exported
		// method of the type (helpers walked in place) forgets them — an io.EOF from the wrapped stream
		// is not a Close
		for _, od := range pkgDecls(c, "iocloser") {
			od := od
			if rn := core.RecvNamed(od.Obj); rn == nil || rn.Obj().Name() != tn.typ || od.Obj.Name() == "Close" || !od.Obj.Exported() {
				continue
			}
			oname := core.FuncName(od.Obj)
			c.Walk("R15", &core.Config{Follow: helperFollow("iocloser")}, core.Entry{Decl: od}, func(p *core.Path) {
				for _, ev := range p.Events {
					for _, f := range []string{sf, cf} {
						if assignsField(ev, f, "") {
							bad := ev.Rhs == nil || isNilExpr(ev.Rhs, ev.Frame)
							a.note("R15", oname+"/detached-only-by-close", ev.Pos, bad,
								"the wrapped stream and the close function are cleared by Close only",
								oname+" clears "+f+": the wrapper stops passing data through (or forgets its close function) although Close was not called", p)
						}
					}
				}
				if p.End == core.EndReturn {
					a.note("R15", oname+"/detached-only-by-close", od.Decl.Pos(), false, "the wrapped stream and the close function are cleared by Close only", "", p)
				}
			})
		}
		if d := c.declByName("R15", "iocloser", tn.typ, tn.io); d != nil {
			name := core.FuncName(d.Obj)
			c.Walk("R15", &core.Config{Follow: samePkgFollow(d.Pkg.PkgPath)}, core.Entry{Decl: d}, func(p *core.Path) {
				g := prepare(c, p)
				for i, ev := range p.Events {
					if ev.Kind == core.KCall && ev.Callee != nil && (ev.Callee.Name() == "Read" || ev.Callee.Name() == "Write") {
						a.requireGuard("R15", name+"/use-stream-when-open", g, i, false, fnot(eq("nil", sf)), "using the wrapped stream")
						a.note("R15", name+"/use-stream-when-open/locked", ev.Pos, !holdsLock(ev, lock), "the stream is used under closeMtx", "the stream is used without closeMtx: a concurrent Close can detach it in between", p)
					}
				}
			})
			a.expect("R15", name+"/use-stream-when-open", 1, "the stream call in "+tn.io)
		}
	}
	// --- ioproxy
	if d := c.declByName("R13c", "ioproxy", "", "ProxyStreams"); d != nil {
		name := core.FuncName(d.Obj)
		// the pumps: whatever the two go statements start (a declared function or a local closure)
		type pump struct {
			decl *core.FuncDecl
			lit  *ast.FuncLit
		}
		var pumps []pump
		// go func() { pump(a, b, cb) }(): a parameterless literal whose body is one call is looked through
		thin := func(ev *core.Event) *ast.CallExpr {
			if ev.FunVal.Kind != core.VFuncLit || ev.FunVal.Lit.Type.Params.NumFields() != 0 || len(ev.FunVal.Lit.Body.List) != 1 {
				return nil
			}
			es, ok := ev.FunVal.Lit.Body.List[0].(*ast.ExprStmt)
			if !ok {
				return nil
			}
			call, _ := es.X.(*ast.CallExpr)
			return call
		}
		goArgs := func(ev *core.Event) []ast.Expr {
			if call := thin(ev); call != nil {
				return call.Args
			}
			return ev.Call.Args
		}
		addPump := func(ev *core.Event) {
			var pm pump
			if ev.Callee != nil {
				pm.decl = c.Prog.Decl(ev.Callee.Origin())
			} else if call := thin(ev); call != nil {
				if f, _ := typeutil.Callee(d.Pkg.TypesInfo, call).(*types.Func); f != nil {
					pm.decl = c.Prog.Decl(f.Origin())
				}
			}
			if pm.decl == nil && ev.Callee == nil && ev.FunVal.Kind == core.VFuncLit {
				pm.lit = ev.FunVal.Lit
			}
			if pm.decl == nil && pm.lit == nil {
				return
			}
			for _, o := range pumps {
				if o == pm {
					return
				}
			}
			pumps = append(pumps, pm)
		}
		c.Walk("R13c", &core.Config{Follow: samePkgFollow(d.Pkg.PkgPath)}, core.Entry{Decl: d}, func(p *core.Path) {
			var gos []*core.Event
			for _, ev := range p.Events {
				if ev.Kind == core.KGo {
					gos = append(gos, ev)
					addPump(ev)
				}
			}
			ok := len(gos) == 2
			// go fwd.run(); go rev.run(): the operands are the stream fields of the two receivers, as
			// given in the composite literals they were built from
			recvOperands := func(ev *core.Event) []ast.Expr {
				sel, isSel := unparen(ev.Call.Fun).(*ast.SelectorExpr)
				if !isSel || len(ev.Call.Args) != 0 {
					return nil
				}
				rv := identVar(sel.X, ev.Frame)
				if rv == nil {
					return nil
				}
				var out []ast.Expr
				for _, b := range p.Events {
					if b.Kind != core.KAssign || b.FieldInit || identVar(b.Lhs, b.Frame) != rv || b.Rhs == nil {
						continue
					}
					e := unparen(b.Rhs)
					if u, isU := e.(*ast.UnaryExpr); isU && u.Op == token.AND {
						e = unparen(u.X)
					}
					cl, isCL := e.(*ast.CompositeLit)
					if !isCL {
						continue
					}
					out = nil
					for _, el := range cl.Elts {
						v := el
						if kv, isKV := el.(*ast.KeyValueExpr); isKV {
							v = kv.Value
						}
						if t := b.Frame.Info().TypeOf(v); t != nil && hasMethod(t, "Close") {
							out = append(out, v)
						}
					}
				}
				return out
			}
			if ok && len(goArgs(gos[0])) == 0 {
				a0, a1 := recvOperands(gos[0]), recvOperands(gos[1])
				ok = len(a0) == 2 && len(a1) == 2 &&
					core.ExprString(a0[0]) == core.ExprString(a1[1]) &&
					core.ExprString(a0[1]) == core.ExprString(a1[0]) &&
					core.ExprString(a0[0]) != core.ExprString(a0[1])
			} else if ok {
				a0, a1 := goArgs(gos[0]), goArgs(gos[1])
				ok = len(a0) >= 2 && len(a1) >= 2 &&
					core.ExprString(a0[0]) == core.ExprString(a1[1]) &&
					core.ExprString(a0[1]) == core.ExprString(a1[0]) &&
					core.ExprString(a0[0]) != core.ExprString(a0[1])
			}
			a.note("R13c", name+"/two-swapped-pumps", d.Decl.Pos(), !ok, "two pumps are started with swapped stream arguments", "ProxyStreams does not start exactly two pumps with swapped stream arguments", p)
		})
		if len(pumps) == 0 {
			c.MissingAnchor("R13c", name+": the pump started by the go statements")
		}
		// the callback: the func() parameter of the pump, or of ProxyStreams when the pump is a closure
		isCbType := func(t types.Type) bool {
			sg, ok := t.Underlying().(*types.Signature)
			return ok && sg.Params().Len() == 0 && sg.Results().Len() == 0
		}
		outerCb := paramWhere(d, isCbType)
		for _, pm := range pumps {
			var e core.Entry
			var pname string
			var ft *ast.FuncType
			var pkg = d.Pkg
			if pm.decl != nil {
				e, pname, ft, pkg = core.Entry{Decl: pm.decl}, core.FuncName(pm.decl.Obj), pm.decl.Decl.Type, pm.decl.Pkg
			} else {
				pname = name + ".pump"
				e, ft = core.Entry{Lit: pm.lit, Pkg: d.Pkg, Outer: d, Name: pname}, pm.lit.Type
			}
			var streams []*types.Var
			cb := outerCb
			for _, f := range ft.Params.List {
				for _, n := range f.Names {
					v, _ := pkg.TypesInfo.Defs[n].(*types.Var)
					if v == nil {
						continue
					}
					if isCbType(v.Type()) {
						cb = v
					} else if hasMethod(v.Type(), "Close") {
						streams = append(streams, v)
					}
				}
			}
			// … or, for a pump that is a method of a small struct (go fwd.run()), the struct's fields
			if pm.decl != nil && len(streams) != 2 {
				if rn := core.RecvNamed(pm.decl.Obj); rn != nil {
					if st, ok := rn.Underlying().(*types.Struct); ok {
						streams = nil
						for fi := 0; fi < st.NumFields(); fi++ {
							f := st.Field(fi)
							if isCbType(f.Type()) {
								cb = f
							} else if hasMethod(f.Type(), "Close") {
								streams = append(streams, f)
							}
						}
					}
				}
			}
			if len(streams) != 2 || cb == nil {
				c.MissingAnchor("R13c", pname+": two stream operands (parameters or fields) and a callback")
				continue
			}
			opVar := func(e ast.Expr, fr *core.Frame) *types.Var {
				if fv := fieldVar(e, fr); fv != nil {
					return fv
				}
				return identVar(e, fr)
			}
			cbTerm := c.Role(cb)
			if cb.IsField() {
				cbTerm = core.FieldName(cb)
			}
			c.Walk("R13c", &core.Config{Follow: samePkgFollow(d.Pkg.PkgPath)}, e, func(p *core.Path) {
				g := prepare(c, p)
				closes := map[*types.Var]int{}
				cbs := 0
				made := map[*types.Var]bool{} // locals assigned from make(...) inside the pump
				for i, ev := range p.Events {
					if ev.Kind == core.KAssign && !ev.FieldInit && ev.Rhs != nil && ev.RhsIdx < 0 {
						if v := identVar(ev.Lhs, ev.Frame); v != nil && !v.IsField() {
							call, isCall := unparen(ev.Rhs).(*ast.CallExpr)
							isMake := false
							if isCall {
								if id, ok := unparen(call.Fun).(*ast.Ident); ok && id.Name == "make" {
									isMake = true
								}
							}
							made[v] = isMake && frameWithinEntry(ev.Frame)
						}
					}
					if ev.Kind == core.KCall && ev.Callee != nil && ev.Callee.Pkg() != nil && ev.Callee.Pkg().Path() == "io" && ev.Callee.Name() == "CopyBuffer" && len(ev.Call.Args) == 3 {
						bv := identVar(ev.Call.Args[2], ev.Frame)
						a.note("R13c", pname+"/own-copy-buffer", ev.Pos, !(bv != nil && made[bv]) && !isNilExpr(ev.Call.Args[2], ev.Frame),
							"each pump copies through a buffer it allocated itself (or nil)",
							"the pump hands io.CopyBuffer a buffer it did not allocate itself: the two directions run concurrently and overwrite each other's chunk between a Read and the Write that follows it", p)
					}
					if (ev.Kind == core.KCall || ev.Kind == core.KEnter) && ev.Callee != nil && ev.Callee.Name() == "Close" {
						if sel, ok := unparen(ev.Call.Fun).(*ast.SelectorExpr); ok {
							if v := opVar(sel.X, ev.Frame); v != nil {
								closes[v]++
							}
						}
					}
					if ev.Kind == core.KCall && ev.Callee == nil && ev.Builtin == "" && opVar(ev.Call.Fun, ev.Frame) == cb {
						cbs++
						a.requireGuard("R13c", pname+"/callback-non-nil", g, i, false, fnot(eq(cbTerm, "nil")), "calling the callback")
					}
				}
				cbNilKnown, _ := implies(g.litsBefore(len(p.Events), false), eq(cbTerm, "nil"))
				if p.End == core.EndReturn {
					ok := closes[streams[0]] == 1 && closes[streams[1]] == 1 && (cbs == 1 || cbs == 0 && cbNilKnown)
					a.note("R13c", pname+"/close-both-and-call-back-once", entryPos(e), !ok, "every path closes both streams once and calls the callback once (when set)",
						sprintf("a path of the pump closes its first stream %d times, its second %d times and calls the callback %d times", closes[streams[0]], closes[streams[1]], cbs), p)
				}
			})
			a.expect("R13c", pname+"/close-both-and-call-back-once", 1, "paths of the pump")
		}
	}
	// --- unique
	for _, tn := range []struct {
		typ string
		fns []string
	}{{"KeyedList", []string{"SetValues", "AppendValues", "RemoveValues", "RemoveKeys"}}, {"KeyedMap", []string{"SetValues", "AppendValues", "RemoveKeys"}}} {
		vals := "unique." + tn.typ + ".vals"
		changed := "unique." + tn.typ + ".changed"
		cmp := "unique." + tn.typ + ".cmp"
		for _, fn := range tn.fns {
			d := c.declByName("R15", "unique", tn.typ, fn)
			if d == nil {
				continue
			}
			name := core.FuncName(d.Obj)
			touching := map[ast.Node]bool{}
			type skipped struct {
				node ast.Node
				pos  token.Pos
				p    *core.Path
			}
			var skips []skipped
			defer func() {
				for _, sk := range skips {
					if touching[sk.node] {
						a.note("R15", name+"/one-mutation-one-notification", sk.pos, true, "",
							"a trip through the loop over the input ends without looking the key up in the stored values (no store, no delete, no comparison): an input value is skipped", sk.p)
					}
				}
			}()
			c.Walk("R15", &core.Config{Follow: samePkgFollow(d.Pkg.PkgPath)}, core.Entry{Decl: d}, func(p *core.Path) {
				g := prepare(c, p)
				type iter struct {
					start               int
					stores, dels, notes int
					touches             bool
					flags               []string
					cmpEqual            bool
					absent, present     bool
					node                ast.Node
				}
				var cur *iter
				okRole := "?ok"
				flush := func(end int, pos token.Pos) {
					if cur == nil {
						return
					}
					it := cur
					cur = nil
					if !it.touches {
						// a bookkeeping loop that does not look at the stored values — unless other trips
						// through the same loop do (judged after all paths were seen)
						skips = append(skips, skipped{it.node, pos, p})
						return
					}
					touching[it.node] = true
					muts := it.stores + it.dels
					bad := ""
					switch {
					case muts > 1 || it.notes > 1:
						bad = sprintf("performs %d mutations and %d notifications", muts, it.notes)
					case muts != it.notes:
						bad = sprintf("performs %d mutation(s) but %d changed() call(s)", muts, it.notes)
					case muts == 0:
						// allowed only when the comparison said equal, or (for removals) the key is absent
						lits := g.litsBefore(end, false)
						var since []*r2Lit
						for j := it.start; j < end; j++ {
							if g.lits[j] != nil {
								since = append(since, g.lits[j])
							}
						}
						_ = lits
						decided := false
						for _, l := range since {
							s := l.f.String()
							if strings.Contains(s, "opaque:") && strings.Contains(s, "cmp(") && l.val == !strings.HasPrefix(s, "!") {
								decided = true
							}
							if s == "F("+okRole+")" && !l.val {
								decided = strings.HasPrefix(fn, "Remove") || decided
							}
						}
						if !decided {
							// the comparison call itself
							for j := it.start; j < end; j++ {
								if callsField(p.Events[j], cmp) {
									decided = true
								}
							}
							if strings.HasPrefix(fn, "Remove") {
								for _, l := range since {
									if (l.f.String() == "F("+okRole+")" && !l.val) || (l.f.String() == "!F("+okRole+")" && l.val) {
										decided = true
									}
								}
							}
						}
						if !decided {
							bad = "neither stores/deletes nor reaches the comparison (or the absence test): an input value is skipped"
						}
					}
					if bad == "" && muts == 1 && len(it.flags) == 1 {
						want := ""
						switch {
						case it.dels == 1:
							want = "false,true"
						case it.absent:
							want = "true,false"
						case it.present:
							want = "false,false"
						}
						if want != "" && it.flags[0] != want && !strings.Contains(it.flags[0], "?") {
							bad = "notifies with flags (added,removed)=(" + it.flags[0] + ") where the branch requires (" + want + ")"
						}
					}
					a.note("R15", name+"/one-mutation-one-notification", pos, bad != "",
						"every trip through the loop performs one store/delete with one matching changed() call, or none after the comparison/absence test",
						"a trip through the loop "+bad, p)
				}
				for i, ev := range p.Events {
					if ev.Kind == core.KLoop {
						flush(i, ev.Pos)
						// only the loops over the input (not the bookkeeping loop over previous keys)
						cur = &iter{start: i, node: ev.Node}
					}
					if cur == nil {
						continue
					}
					if ev.Kind == core.KAssign && ev.Rhs != nil && ev.RhsIdx == 1 {
						if ix, ok := unparen(ev.Rhs).(*ast.IndexExpr); ok {
							if fv := fieldVar(ix.X, ev.Frame); fv != nil && core.FieldName(fv) == vals {
								if v := identVar(ev.Lhs, ev.Frame); v != nil {
									okRole = c.Role(v)
								}
							}
						}
					}
					if ev.Kind == core.KAssign && ev.Rhs != nil {
						ast.Inspect(ev.Rhs, func(n ast.Node) bool {
							if sel, ok := n.(*ast.SelectorExpr); ok {
								if fv := fieldVar(sel, ev.Frame); fv != nil && core.FieldName(fv) == vals {
									cur.touches = true
								}
							}
							return true
						})
					}
					if ev.Kind == core.KAssign && !ev.FieldInit && ev.Var != nil && core.FieldName(ev.Var) == vals {
						cur.touches = true
						if _, ok := unparen(ev.Lhs).(*ast.IndexExpr); ok {
							cur.stores++
						}
					}
					if ev.Kind == core.KCall && ev.Builtin == "delete" {
						if fv := fieldVar(ev.Call.Args[0], ev.Frame); fv != nil && core.FieldName(fv) == vals {
							cur.dels++
							cur.touches = true
						}
					}
					if callsField(ev, changed) {
						cur.notes++
						if len(ev.Call.Args) == 4 {
							// the flags as the path decides them: constants, or named booleans (added := !ok)
							// whose value follows from the branch decisions of this trip
							flagVal := func(arg ast.Expr) string {
								if tv, ok := ev.Frame.Info().Types[unparen(arg)]; ok && tv.Value != nil {
									return tv.Value.ExactString()
								}
								f := g.builderAt(i).build(arg, ev.Frame)
								var since []*r2Lit
								for j := cur.start; j < i; j++ {
									if g.lits[j] != nil {
										since = append(since, g.lits[j])
									}
								}
								if ok, _ := implies(since, f); ok {
									return "true"
								}
								if ok, _ := implies(since, fnot(f)); ok {
									return "false"
								}
								return "?"
							}
							cur.flags = append(cur.flags, flagVal(ev.Call.Args[2])+","+flagVal(ev.Call.Args[3]))
						}
					}
					if l := g.lits[i]; l != nil {
						s := l.f.String()
						if s == "F("+okRole+")" {
							cur.present, cur.absent = l.val, !l.val
						} else if s == "!F("+okRole+")" {
							cur.present, cur.absent = !l.val, l.val
						}
					}
				}
				if len(p.Events) > 0 {
					flush(len(p.Events), p.Events[len(p.Events)-1].Pos)
				}
			})
			a.expect("R15", name+"/one-mutation-one-notification", 1, "the loop of "+fn)
		}
	}
}

func runGcodec(c *Ctx) {
	a := newAgg(c)
	defer a.flush()
	// --- R14a padding: a re-slice of the received buffer beyond its length stays within its capacity
	if d := c.declByName("R14a", "padding", "", "PadInPlace"); d != nil {
		name := core.FuncName(d.Obj)
		pv := paramVars(d)
		c.Walk("R14a", &core.Config{Follow: samePkgFollow(d.Pkg.PkgPath)}, core.Entry{Decl: d}, func(p *core.Path) {
			g := prepare(c, p)
			for i, ev := range p.Events {
				if ev.Kind != core.KAssign || ev.Rhs == nil || len(pv) == 0 || pv[0] == nil {
					continue
				}
				se, ok := unparen(ev.Rhs).(*ast.SliceExpr)
				if !ok || se.High == nil || (identVar(se.X, ev.Frame) != pv[0] && aliasOf(p, ev, se.X) != pv[0]) {
					continue
				}
				// High = v + k
				h := unparen(se.High)
				k := 0
				for {
					be, isBin := h.(*ast.BinaryExpr)
					if !isBin || (be.Op != token.ADD && be.Op != token.SUB) {
						break
					}
					tv, has := ev.Frame.Info().Types[unparen(be.Y)]
					if !has || tv.Value == nil {
						break
					}
					cv, exact := constantInt(tv)
					if !exact {
						break
					}
					if be.Op == token.ADD {
						k += cv
					} else {
						k -= cv
					}
					h = unparen(be.X)
				}
				vTerm, okT := g.builderAt(i).term(h, ev.Frame)
				capTerm := "cap(" + c.Role(pv[0]) + ")"
				best, have := 0, false
				if okT {
					for j := 0; j < i; j++ {
						if b := p.Events[j]; b.Kind == core.KBranch {
							if ub, ok := diffUpperBound(g, j, b, vTerm, capTerm); ok && (!have || ub < best) {
								best, have = ub, true
							}
						}
					}
				}
				a.note("R14a", name+"/extend-within-capacity", se.Pos(), !(have && best <= -k),
					"a re-slice of the received buffer is dominated by a comparison that keeps its bound within cap()",
					sprintf("%s re-slices the received buffer to a bound that the comparisons on this path keep at most %d above cap() (none: %v), where at most %d is needed: a buffer whose capacity is just short of the padded length makes the slice expression panic", core.ExprString(se), best, !have, -k), p)
			}
		})
		a.expect("R14a", name+"/extend-within-capacity", 1, "data = data[:n] in PadInPlace")
		// the trailer (the padding length byte) is the last thing written into the buffer: a zeroing
		// store, clear() or copy() after it would cover the trailer again
		c.Walk("R14a", &core.Config{Follow: samePkgFollow(d.Pkg.PkgPath)}, core.Entry{Decl: d}, func(p *core.Path) {
			if p.End != core.EndReturn {
				return
			}
			lastKind, lastPos := "", token.NoPos
			sawTrailer := false
			for _, ev := range p.Events {
				switch {
				case ev.Kind == core.KAssign && !ev.FieldInit:
					ix, ok := unparen(ev.Lhs).(*ast.IndexExpr)
					if !ok {
						continue
					}
					if bv := identVar(ix.X, ev.Frame); bv == nil || bv.IsField() {
						continue
					}
					if _, isSl := ev.Frame.Info().TypeOf(ix.X).Underlying().(*types.Slice); !isSl {
						continue
					}
					if tv, isC := ev.Frame.Info().Types[unparen(ev.Rhs)]; ev.Rhs != nil && isC && tv.Value != nil {
						lastKind, lastPos = "a constant store", ev.Pos
					} else {
						lastKind, lastPos = "trailer", ev.Pos
						sawTrailer = true
					}
				case ev.Kind == core.KCall && (ev.Builtin == "clear" || ev.Builtin == "copy"):
					lastKind, lastPos = ev.Builtin+"()", ev.Pos
				}
			}
			if sawTrailer {
				a.note("R14a", name+"/trailer-written-last", lastPos, lastKind != "trailer",
					"the padding length byte is the last write into the buffer on every path",
					"after the padding length byte was stored the buffer is written again by "+lastKind+": a zeroing that runs to the end of the extension wipes the trailer, and UnpadInPlace then strips a single byte", p)
			}
		})
	}
	// --- commonprefix: TrimPrefix removes what Prefix computes — a path that does not consult Prefix has
	// shown the argument list empty
	if d := c.declByName("R14b", "commonprefix", "", "TrimPrefix"); d != nil {
		name := core.FuncName(d.Obj)
		pv := paramVars(d)
		c.Walk("R14b", &core.Config{}, core.Entry{Decl: d}, func(p *core.Path) {
			if p.End != core.EndReturn || len(pv) == 0 || pv[0] == nil {
				return
			}
			g := prepare(c, p)
			consulted := false
			for _, ev := range p.Events {
				if ev.Kind == core.KCall && ev.Callee != nil && core.FuncName(ev.Callee) == "commonprefix.Prefix" {
					consulted = true
				}
			}
			L := "len(" + c.Role(pv[0]) + ")"
			lits := g.litsBefore(len(p.Events), false)
			empty := false
			for _, w := range []*formula{eq("0", L), lt(L, "1"), fnot(lt("0", L))} {
				if ok, _ := implies(lits, w); ok && len(lits) > 0 {
					empty = true
				}
			}
			a.note("R14b", name+"/consults-prefix", d.Decl.Pos(), !(consulted || empty),
				"every path computes Prefix of its arguments, or has shown there are none",
				"a path of TrimPrefix returns without computing Prefix although arguments may be present: the strings keep a prefix that Prefix reports as common (TrimPrefix and Prefix disagree)", p)
		})
		a.expect("R14b", name+"/consults-prefix", 1, "paths of TrimPrefix")
	}
	// --- R14a padding
	if d := c.declByName("R14a", "padding", "", "UnpadInPlace"); d != nil {
		name := core.FuncName(d.Obj)
		pv := paramVars(d)
		c.Walk("R14a", &core.Config{Follow: samePkgFollow(d.Pkg.PkgPath)}, core.Entry{Decl: d}, func(p *core.Path) {
			g := prepare(c, p)
			reassigned := false
			seen := map[ast.Node]bool{}
			for i, ev := range p.Events {
				if ev.Kind == core.KAssign && len(pv) > 0 && identVar(ev.Lhs, ev.Frame) == pv[0] {
					// data = data[:n]: the slice expression itself is still on the received parameter
					checkIndexes(c, a, name, g, i, ev.Rhs, pv[0], ev.Frame, p, seen)
					reassigned = true
					continue
				}
				if reassigned || len(pv) == 0 {
					continue
				}
				var exprs []ast.Expr
				switch ev.Kind {
				case core.KAssign:
					exprs = append(exprs, ev.Rhs)
				case core.KBranch:
					exprs = append(exprs, ev.Cond)
				case core.KReturn:
					exprs = append(exprs, ev.Results...)
				}
				for _, e := range exprs {
					if e != nil {
						checkIndexes(c, a, name, g, i, e, pv[0], ev.Frame, p, seen)
					}
				}
			}
		})
		a.expect("R14a", name+"/index-needs-length-guard", 1, "data[len(data)-1] in UnpadInPlace")
	}
	// --- R14b commonprefix
	if pkg := c.Prog.Pkg("commonprefix"); pkg != nil {
		n := 0
		for _, f := range pkg.Syntax {
			ast.Inspect(f, func(nd ast.Node) bool {
				call, ok := nd.(*ast.CallExpr)
				if !ok || len(call.Args) != 1 {
					return true
				}
				tv, ok := pkg.TypesInfo.Types[call.Fun]
				if !ok || !tv.IsType() {
					return true
				}
				n++
				if b, ok := tv.Type.Underlying().(*types.Basic); !ok || b.Kind() != types.String {
					return true
				}
				at := pkg.TypesInfo.TypeOf(call.Args[0])
				if ab, ok := at.Underlying().(*types.Basic); ok && (ab.Kind() == types.Uint8 || ab.Kind() == types.Int32 || ab.Info()&types.IsInteger != 0) {
					fn := "commonprefix"
					if d := c.Prog.EnclosingDecl(call.Pos()); d != nil {
						fn = core.FuncName(d.Obj)
					}
					a.note("R14b", fn+"/string(integer)", call.Pos(), true, "", "string("+core.ExprString(call.Args[0])+") converts an integer/byte to its UTF-8 encoding, not to a one-byte string: bytes >= 0x80 become two bytes and the computed prefix is cut short", nil)
				}
				return true
			})
		}
		a.note("R14b", "commonprefix/no-rune-encoding-of-bytes", token.NoPos, false, sprintf("no conversion string(<integer>) in the package (%d conversions inspected)", n), "", nil)
	} else {
		c.MissingAnchor("R14b", "package commonprefix")
	}
	// --- R14b commonprefix works on bytes: no iteration over the runes of a string, no cutset-based trimming
	if pkg := c.Prog.Pkg("commonprefix"); pkg != nil {
		nr, nt := 0, 0
		for _, d := range pkgDecls(c, "commonprefix") {
			d := d
			ast.Inspect(d.Decl.Body, func(n ast.Node) bool {
				switch x := n.(type) {
				case *ast.RangeStmt:
					if t := d.Pkg.TypesInfo.TypeOf(x.X); t != nil && isBasic(t, types.IsString) {
						nr++
						a.note("R14b", core.FuncName(d.Obj)+"/no-range-over-string", x.Pos(), true, "",
							"the function ranges over a string: the loop variable steps over rune starts, not bytes, so a byte-wise comparison skips continuation bytes and cuts a multi-byte character in the middle", nil)
					}
				case *ast.CallExpr:
					if f, _ := typeutil.Callee(d.Pkg.TypesInfo, x).(*types.Func); f != nil && f.Pkg() != nil && f.Pkg().Path() == "strings" {
						switch f.Name() {
						case "Trim", "TrimLeft", "TrimRight":
							nt++
							a.note("R14b", core.FuncName(d.Obj)+"/no-cutset-trimming", x.Pos(), true, "",
								"strings."+f.Name()+" treats its second argument as a SET of characters, not as a prefix: it keeps stripping every leading character that occurs anywhere in the computed prefix", nil)
						}
					}
				}
				return true
			})
		}
		if nr == 0 && nt == 0 {
			a.note("R14b", "commonprefix/byte-wise-only", token.NoPos, false, "no range over a string and no cutset-based strings.Trim* in the package", "", nil)
		}
	}
	// --- R14c prng: a new word is drawn from the source only when the buffered word is used up
	if d := c.Prog.LookupFunc("prng", "randReader", "Read"); d != nil {
		dd := c.Prog.Decl(d)
		name := core.FuncName(d)
		// the read position inside the buffered word: the reader's one integer field
		offField := "?offset"
		if rn := core.RecvNamed(d); rn != nil {
			if st, ok := rn.Underlying().(*types.Struct); ok {
				n := 0
				for i := 0; i < st.NumFields(); i++ {
					if isBasic(st.Field(i).Type(), types.IsInteger) {
						offField = core.FieldName(st.Field(i))
						n++
					}
				}
				if n != 1 {
					offField = "?offset"
					c.MissingAnchor("R14c", name+": the reader's offset field (exactly one integer field expected)")
				}
			}
		}
		c.Walk("R14c", &core.Config{Follow: samePkgFollow(dd.Pkg.PkgPath)}, core.Entry{Decl: dd}, func(p *core.Path) {
			g := prepare(c, p)
			for i, ev := range p.Events {
				if (ev.Kind == core.KCall || ev.Kind == core.KEnter) && ev.Callee != nil && ev.Callee.Name() == "Uint64" && fieldVar(callRecv(ev.Call), ev.Frame) != nil {
					want := eq("0", offField)
					pvs := paramVars(dd)
					var res0 *types.Var
					if rs := dd.Decl.Type.Results; rs != nil && len(rs.List) > 0 && len(rs.List[0].Names) > 0 {
						res0, _ = dd.Pkg.TypesInfo.Defs[rs.List[0].Names[0]].(*types.Var)
					}
					if len(pvs) > 0 && pvs[0] != nil && res0 != nil {
						// … and only while bytes are still wanted (count < len(buffer))
						want = fand(want, lt(c.Role(res0), "len("+c.Role(pvs[0])+")"))
					}
					a.requireGuard("R14c", name+"/draw-when-buffer-empty", g, i, false, want, "drawing a new word from the source")
				}
			}
		})
		a.expect("R14c", name+"/draw-when-buffer-empty", 1, "r.src.Uint64() in Read")
	} else {
		c.MissingAnchor("R14c", "prng.(*randReader).Read")
	}
	// --- R14c prng determinism
	if pkg := c.Prog.Pkg("prng"); pkg != nil {
		banned := map[string]bool{"time": true, "crypto/rand": true, "os": true}
		for _, d := range c.Prog.Funcs {
			if d.Pkg != pkg {
				continue
			}
			name := core.FuncName(d.Obj)
			bad := ""
			ast.Inspect(d.Decl.Body, func(n ast.Node) bool {
				switch x := n.(type) {
				case *ast.CallExpr:
					if f, _ := typeutil.Callee(pkg.TypesInfo, x).(*types.Func); f != nil && f.Pkg() != nil {
						pp := f.Pkg().Path()
						if banned[pp] {
							bad = "calls " + pp + "." + f.Name()
						}
						if (pp == "math/rand" || pp == "math/rand/v2") && f.Type().(*types.Signature).Recv() == nil && !strings.HasPrefix(f.Name(), "New") {
							bad = "calls the global generator " + pp + "." + f.Name()
						}
					}
				case *ast.RangeStmt:
					if _, ok := pkg.TypesInfo.TypeOf(x.X).Underlying().(*types.Map); ok {
						bad = "iterates over a map"
					}
				case *ast.Ident:
					if v, ok := pkg.TypesInfo.Uses[x].(*types.Var); ok && v.Pkg() == pkg.Types && v.Parent() == pkg.Types.Scope() {
						bad = "uses the package-level variable " + v.Name()
					}
				}
				return true
			})
			a.note("R14c", name+"/deterministic", d.Decl.Pos(), bad != "", "no nondeterministic source or package-level state is used", "the function "+bad+": streams built from equal seeds are no longer identical", nil)
		}
		// the reader's state is written only by Read and by unexported helpers that only Read calls
		writers := map[*core.FuncDecl]token.Pos{}
		callers := map[*types.Func]map[*core.FuncDecl]bool{}
		for _, d := range c.Prog.Funcs {
			if d.Pkg != pkg {
				continue
			}
			d := d
			ast.Inspect(d.Decl.Body, func(n ast.Node) bool {
				switch x := n.(type) {
				case *ast.CallExpr:
					if f, _ := typeutil.Callee(pkg.TypesInfo, x).(*types.Func); f != nil && f.Pkg() == pkg.Types {
						if callers[f.Origin()] == nil {
							callers[f.Origin()] = map[*core.FuncDecl]bool{}
						}
						callers[f.Origin()][d] = true
					}
				case *ast.AssignStmt:
					for _, l := range x.Lhs {
						root := l
						for {
							if ix, ok := unparen(root).(*ast.IndexExpr); ok {
								root = ix.X
								continue
							}
							break
						}
						if fv := fieldVar(root, &core.Frame{Pkg: pkg}); fv != nil && strings.HasPrefix(core.FieldName(fv), "prng.randReader.") {
							writers[d] = l.Pos()
						}
					}
				}
				return true
			})
		}
		allowed := map[*core.FuncDecl]bool{}
		for _, d := range c.Prog.Funcs {
			if d.Pkg == pkg && d.Obj.Name() == "Read" {
				allowed[d] = true
			}
		}
		for changed := true; changed; {
			changed = false
			for _, d := range c.Prog.Funcs {
				if d.Pkg != pkg || allowed[d] || d.Obj.Exported() || len(callers[d.Obj]) == 0 {
					continue
				}
				ok := true
				for cd := range callers[d.Obj] {
					if !allowed[cd] {
						ok = false
					}
				}
				if ok {
					allowed[d] = true
					changed = true
				}
			}
		}
		for d, pos := range writers {
			a.note("R14c", "prng.randReader/state-written-only-in-Read", pos, !allowed[d], "the reader's state is written only by Read (and helpers only Read calls)", "the reader's state is written outside Read ("+core.FuncName(d.Obj)+")", nil)
		}
	} else {
		c.MissingAnchor("R14c", "package prng")
	}
}

// checkIndexes finds p[len(p)-k] / p[:len(p)-x] uses inside e and requires a dominating guard.
// expandLocals replaces locals that merely name a pure expression (dataLen := len(data)) by that
// expression, so that the index analysis sees through them.
func expandLocals(e ast.Expr, g *gpath, i int, fr *core.Frame, depth int) ast.Expr {
	if depth > 4 || e == nil {
		return e
	}
	gb := &gbuilder{c: g.c, defs: g.defs[i], sec: g.sec[i]}
	switch x := e.(type) {
	case *ast.Ident:
		if v := identVar(x, fr); v != nil && !v.IsField() {
			if d, ok := gb.defs[v]; ok && gb.usable(d) && !readsElements(d.expr) {
				// only names of sums/differences are looked through (end := len(data) - 1); a local that
				// names a value (paddingLen := int(trailer)) stays the term the comparisons talk about
				if be, isBin := unparen(d.expr).(*ast.BinaryExpr); isBin && (be.Op == token.ADD || be.Op == token.SUB) {
					return &ast.ParenExpr{X: expandLocals(d.expr, g, i, d.fr, depth+1)}
				}
				// … and names of a length (dataLen := len(data))
				if call, isCall := unparen(d.expr).(*ast.CallExpr); isCall {
					if id, ok := unparen(call.Fun).(*ast.Ident); ok && id.Name == "len" {
						return &ast.ParenExpr{X: d.expr}
					}
				}
			}
		}
	case *ast.ParenExpr:
		return &ast.ParenExpr{X: expandLocals(x.X, g, i, fr, depth)}
	case *ast.BinaryExpr:
		return &ast.BinaryExpr{X: expandLocals(x.X, g, i, fr, depth), Op: x.Op, OpPos: x.OpPos, Y: expandLocals(x.Y, g, i, fr, depth)}
	}
	return e
}

func checkIndexes(c *Ctx, a *agg, name string, g *gpath, i int, e ast.Expr, param *types.Var, fr *core.Frame, p *core.Path, seen map[ast.Node]bool) {
	ast.Inspect(e, func(n ast.Node) bool {
		var idx []ast.Expr
		var base ast.Expr
		switch x := n.(type) {
		case *ast.IndexExpr:
			base, idx = x.X, []ast.Expr{x.Index}
		case *ast.SliceExpr:
			base, idx = x.X, []ast.Expr{x.Low, x.High}
		default:
			return true
		}
		if identVar(base, fr) != param {
			return true
		}
		for _, ix := range idx {
			if ix == nil {
				continue
			}
			ix = expandLocals(ix, g, i, fr, 0)
			be, ok := unparen(ix).(*ast.BinaryExpr)
			if !ok || be.Op != token.SUB {
				continue
			}
			// len(p) - k   or   len(p) - x - 1 …: collect the subtracted terms
			var subs []ast.Expr
			cur := ast.Expr(be)
			for {
				b, ok := unparen(cur).(*ast.BinaryExpr)
				if !ok || b.Op != token.SUB {
					break
				}
				subs = append(subs, b.Y)
				cur = b.X
			}
			call, ok := unparen(cur).(*ast.CallExpr)
			if !ok || core.ExprString(call) != "len("+param.Name()+")" {
				continue
			}
			lits := g.litsBefore(i, false)
			L := "len(" + c.Role(param) + ")"
			constSum := 0
			var varTerms []string
			for _, sx := range subs {
				if tv, ok := fr.Info().Types[unparen(sx)]; ok && tv.Value != nil {
					if tv.Value.ExactString() == "1" {
						constSum++
					} else {
						constSum += 2
					}
				} else {
					gb := &gbuilder{c: c, defs: g.defs[i], sec: g.sec[i]}
					t, _ := gb.term(sx, fr)
					varTerms = append(varTerms, t)
				}
			}
			okGuard := false
			why := ""
			if len(varTerms) == 0 {
				// constant k: need !(len == 0) (k == 1) in the path conditions
				if constSum == 1 {
					okGuard, _ = implies(lits, fnot(eq("0", L)))
					if !okGuard {
						okGuard, _ = implies(lits, lt("0", L))
					}
				}
				why = sprintf("%s is used on a path that has not excluded len(%s) < %d: empty (or too short) input panics", core.ExprString(n.(ast.Expr)), param.Name(), constSum)
			} else {
				// a bound read from the data: the comparisons of that value v with len(p) on the path must
				// establish  v + k <= len(p)  (k = the constants subtracted besides v), i.e. the slice
				// bound len(p)-v-k is not negative. Difference reasoning over d = v - len(p).
				need := -constSum
				best, have := 0, false
				if len(varTerms) == 1 {
					for j := 0; j < i; j++ {
						b := g.p.Events[j]
						if b.Kind != core.KBranch {
							continue
						}
						if ub, ok := diffUpperBound(g, j, b, varTerms[0], L); ok {
							if !have || ub < best {
								best, have = ub, true
							}
						}
					}
				}
				okGuard = have && best <= need
				why = sprintf("%s uses a bound taken from the data; the comparisons on this path establish at most value - len(%s) <= %d (none: %v) where <= %d is needed: crafted input makes the slice bound negative and the function panics instead of returning an error", core.ExprString(n.(ast.Expr)), param.Name(), best, !have, need)
			}
			a.note("R14a", name+"/index-needs-length-guard", ix.Pos(), !okGuard, "every len(p)-k index/bound on the received slice is dominated by a length guard", why, p)
		}
		return true
	})
}

func runGqueue(c *Ctx) {
	a := newAgg(c)
	defer a.flush()
	// --- AtomicLIFO
	for _, fn := range []string{"Push", "Pop"} {
		d := c.declByName("R10", "cqueue", "AtomicLIFO", fn)
		if d == nil {
			continue
		}
		name := core.FuncName(d.Obj)
		c.Walk("R10", &core.Config{Follow: samePkgFollow(d.Pkg.PkgPath)}, core.Entry{Decl: d}, func(p *core.Path) {
			g := prepare(c, p)
			// an ATTEMPT is: a fresh load of top, (Push) the link of the node to that load, (Pop) the read
			// of the loaded node's next, and the CAS against that load — in that order, with no other
			// attempt's CAS in between. Where the loop boundaries fall (for{}, three-clause for, rotated
			// loop, attempt helper) does not matter.
			var loaded *types.Var // local holding the latest top.Load()
			loadIdx, lastCas := -1, -1
			linkIdx, nextIdx := -1, -1 // Push: newNode.next = loaded; Pop: next := loaded.next
			nonNilIdx := -1            // Pop: the latest branch that found the loaded top non-nil
			var linkNode *types.Var    // Push: the node whose next was assigned straight from top.Load()
			derefChecked := func(i int, ev *core.Event) {
				if fn != "Pop" {
					return
				}
				a.note("R10", name+"/loaded-top-nil-tested-before-use", ev.Pos, !(nonNilIdx > loadIdx),
					"the node loaded for this attempt is dereferenced only after it was found non-nil",
					"Pop reads next from the top it (re)loaded for this attempt without testing that load against nil: when the stack was emptied between two attempts it dereferences nil instead of returning the zero value", p)
			}
			iter := 0
			casOK := false
			// where a local's value came from when it was assigned from an inlined helper's result
			type origin struct {
				ret *core.Event
				idx int
			}
			from := map[*types.Var]origin{}
			var resolve func(e ast.Expr, fr *core.Frame, depth int) (ast.Expr, *core.Frame)
			resolve = func(e ast.Expr, fr *core.Frame, depth int) (ast.Expr, *core.Frame) {
				if v := identVar(e, fr); v != nil && depth < 4 {
					if o, ok := from[v]; ok {
						if re, _ := retResult(o.ret, o.idx); re != nil {
							return resolve(re, o.ret.Frame, depth+1)
						}
					}
				}
				return e, fr
			}
			for i, ev := range p.Events {
				// an attempt: one trip around the retry loop, or one call of the helper that makes the attempt
				if ev.Kind == core.KLoop || (ev.Kind == core.KEnter && ev.Inner != nil && ev.Inner.Fn != nil) {
					iter = i
				}
				if ev.Kind == core.KHavoc && loaded != nil {
					// the summary of the trips beyond the unroll bound: they did what the walked trips did
					loadIdx, linkIdx, nextIdx = i, i+1, i+1
					nonNilIdx = i + 1
				}
				if ev.Kind == core.KBranch && loaded != nil {
					if is, isNil := nilTest(ev, loaded); is && !isNil {
						nonNilIdx = i
					}
				}
				if ev.Kind == core.KAssign && !ev.FieldInit && ev.RetEv != nil {
					if v := identVar(ev.Lhs, ev.Frame); v != nil && !v.IsField() {
						from[v] = origin{ev.RetEv, ev.RhsIdx}
					}
				}
				if ev.Kind == core.KAssign && ev.Rhs != nil && !ev.FieldInit {
					if call, ok := unparen(ev.Rhs).(*ast.CallExpr); ok {
						if sel, ok := unparen(call.Fun).(*ast.SelectorExpr); ok && sel.Sel.Name == "Load" {
							if fv := fieldVar(sel.X, ev.Frame); fv != nil && core.FieldName(fv) == "cqueue.AtomicLIFO.top" {
								loaded, loadIdx = identVar(ev.Lhs, ev.Frame), i
							}
						}
					}
					if ev.Var != nil && core.FieldName(ev.Var) == "cqueue.atomicLIFONode.next" {
						// the load may be stored straight into the (still private) node: n.next = q.top.Load()
						if call, isCall := unparen(ev.Rhs).(*ast.CallExpr); isCall {
							if sel, isSel := unparen(call.Fun).(*ast.SelectorExpr); isSel && sel.Sel.Name == "Load" {
								if fv := fieldVar(sel.X, ev.Frame); fv != nil && core.FieldName(fv) == "cqueue.AtomicLIFO.top" {
									if ls, isLs := unparen(ev.Lhs).(*ast.SelectorExpr); isLs {
										linkNode, loadIdx, linkIdx = identVar(ls.X, ev.Frame), i, i
										loaded = nil
										a.note("R10", name+"/link-to-loaded-top", ev.Pos, false, "the new node is linked to the top loaded for this attempt", "", p)
										a.note("R10", name+"/no-write-after-publish", ev.Pos, casOK, "node fields are not written after a successful CAS", "a node field is written after the node was published by a successful CAS", p)
										continue
									}
								}
							}
						}
						ok := loaded != nil && identVar(ev.Rhs, ev.Frame) == loaded && loadIdx > lastCas
						if ok {
							linkIdx = i
						}
						a.note("R10", name+"/link-to-loaded-top", ev.Pos, !ok, "the new node is linked to the top loaded for this attempt", "the new node's next is not set from the top loaded for this attempt", p)
						a.note("R10", name+"/no-write-after-publish", ev.Pos, casOK, "node fields are not written after a successful CAS", "a node field is written after the node was published by a successful CAS", p)
					}
					if sel, ok := unparen(ev.Rhs).(*ast.SelectorExpr); ok && sel.Sel.Name == "next" && loaded != nil && identVar(sel.X, ev.Frame) == loaded {
						nextIdx = i
						derefChecked(i, ev)
					}
				}
				if isAtomicCall(ev, "CompareAndSwap") && len(ev.Call.Args) == 2 {
					old := identVar(ev.Call.Args[0], ev.Frame)
					ok := old != nil && old == loaded && loadIdx > lastCas
					linked := linkIdx > loadIdx
					// CompareAndSwap(n.next, n) after n.next = top.Load() in this attempt
					if osel, isSel := unparen(ev.Call.Args[0]).(*ast.SelectorExpr); isSel && linkNode != nil && loaded == nil {
						if fv := fieldVar(osel, ev.Frame); fv != nil && core.FieldName(fv) == "cqueue.atomicLIFONode.next" && identVar(osel.X, ev.Frame) == linkNode && loadIdx > lastCas {
							ok, linked = true, linkIdx >= loadIdx
						}
					}
					readNext := nextIdx > loadIdx
					// … or the next pointer is read in the CAS argument itself: CompareAndSwap(oldTop, oldTop.next)
					if sel, isSel := unparen(ev.Call.Args[1]).(*ast.SelectorExpr); isSel && sel.Sel.Name == "next" && loaded != nil && identVar(sel.X, ev.Frame) == loaded {
						readNext = true
						derefChecked(i, ev)
					}
					lastCas = i
					a.note("R10", name+"/cas-on-fresh-load", ev.Pos, !ok, "the CAS compares against the value loaded in the same iteration", "the CAS compares against a value that was not loaded from top in this iteration (a stale top): concurrent pushes/pops between the load and the CAS are overwritten", p)
					if fn == "Push" {
						a.note("R10", name+"/linked-before-cas", ev.Pos, !linked, "the node is (re)linked in every iteration before the CAS", "the CAS is attempted in an iteration that did not link the new node to the freshly loaded top: after a failed attempt the node still points at the stale top and the elements pushed in between are lost", p)
					} else {
						a.note("R10", name+"/next-read-before-cas", ev.Pos, !readNext, "next is read from the loaded node in the same iteration before the CAS", "the CAS installs a next pointer that was not read from the freshly loaded node in this iteration", p)
					}
				}
				if l := g.lits[i]; l != nil && strings.Contains(l.f.String(), "CompareAndSwap") {
					casOK = l.val == !strings.HasPrefix(l.f.String(), "!")
				}
				if ev.Kind == core.KReturn && ev.Frame.Parent == nil && fn == "Pop" && len(ev.Results) == 1 {
					// what Pop hands to its caller, looked through the results of an attempt helper
					res, rfr := resolve(ev.Results[0], ev.Frame, 0)
					rs := core.ExprString(res)
					if strings.HasSuffix(rs, ".value") {
						sel := unparen(res).(*ast.SelectorExpr)
						ok := casOK && loaded != nil && identVar(sel.X, rfr) == loaded
						a.note("R10", name+"/return-swapped-node", ev.Pos, !ok, "Pop returns the value of the node it swapped out, after a successful CAS", "Pop returns a node's value without a successful CAS on that node: an element can be returned twice or while still on the stack", p)
					} else {
						okNil := false
						if loaded != nil {
							for j := i - 1; j >= 0 && j > iter; j-- {
								if b := p.Events[j]; b.Kind == core.KBranch {
									if is, isNil := nilTest(b, loaded); is && isNil {
										okNil = true
									}
								}
							}
						}
						a.note("R10", name+"/empty-only-when-top-nil", ev.Pos, !okNil, "the zero value is returned only when the loaded top is nil", "Pop returns the zero value on a path that did not find the loaded top nil (for instance after a failed CAS): an element is reported missing while the stack is not empty", p)
					}
				}
				if ev.Kind == core.KReturn && ev.Frame.Parent == nil && fn == "Push" {
					a.note("R10", name+"/exit-on-success", ev.Pos, !casOK, "Push returns only after a successful CAS", "Push returns without a successful CAS: the element is lost", p)
				}
			}
		})
		a.expect("R10", name+"/cas-on-fresh-load", 1, "the CAS in "+fn)
	}
	// --- LinkedList: one write-mode section per exported method containing all accesses
	for _, fn := range []string{"Push", "PushFront", "Peek", "IsEmpty", "PeekTail", "Pop", "Reset"} {
		d := c.declByName("R10", "linkedlist", "LinkedList", fn)
		if d == nil {
			continue
		}
		name := core.FuncName(d.Obj)
		c.Walk("R10", &core.Config{EmitAccess: true, Follow: samePkgFollow(d.Pkg.PkgPath)}, core.Entry{Decl: d}, func(p *core.Path) {
			nsec := 0
			readMode := false
			outside := ""
			for _, ev := range p.Events {
				if ev.Kind == core.KAcquire && core.LockName(ev.Lock) == "linkedlist.LinkedList.mtx" {
					nsec++
					if ev.Int&2 != 0 {
						readMode = true
					}
				}
				if ev.Kind == core.KAccess && ev.Var.IsField() && strings.HasPrefix(core.FieldName(ev.Var), "linkedlist.") && core.LockKindOf(ev.Var.Type()) == core.NotLock {
					if !holdsLock(ev, "linkedlist.LinkedList.mtx") {
						outside = core.FieldName(ev.Var) + " at " + c.Prog.Pos(ev.Pos)
					}
				}
			}
			bad := nsec != 1 || outside != "" || readMode
			why := sprintf("the method is not a single write-mode critical section (sections: %d, read-mode: %v, access outside: %s): it is no longer one atomic step of the sequential list, so concurrent calls can observe or build intermediate states", nsec, readMode, outside)
			a.note("R10", name+"/one-atomic-section", d.Decl.Pos(), bad, "the method is exactly one critical section of mtx holding all its list accesses", why, p)
		})
		a.expect("R10", name+"/one-atomic-section", 1, "paths of "+fn)
	}
	// --- LinkedList representation invariant: head == nil ⇔ tail == nil. The methods test emptiness on
	// either field (Peek/Pop/IsEmpty on head, PeekTail and the append on tail), so every path of every
	// method that assumes the invariant on entry must re-establish it: nil-ness of the two fields is
	// followed through the path's assignments and branch decisions.
	const (
		headF = "linkedlist.LinkedList.head"
		tailF = "linkedlist.LinkedList.tail"
	)
	for _, d := range pkgDecls(c, "linkedlist") {
		d := d
		// the exported methods, with the unexported helpers walked in place (a method split into
		// helpers is judged as one step of the list)
		if rn := core.RecvNamed(d.Obj); rn == nil || rn.Obj().Name() != "LinkedList" || !d.Obj.Exported() {
			continue
		}
		if !bodyOrCalleesMatch(c, d, func(dd *core.FuncDecl, n ast.Node) bool {
			_, ok1 := assignsFieldNode(dd, n, headF)
			_, ok2 := assignsFieldNode(dd, n, tailF)
			return ok1 || ok2
		}, 2) {
			continue
		}
		name := core.FuncName(d.Obj)
		c.Walk("R10", &core.Config{Follow: helperFollow("linkedlist")}, core.Entry{Decl: d}, func(p *core.Path) {
			if p.End != core.EndReturn {
				return
			}
			g := prepare(c, p)
			// nil-ness: 0 unknown, 1 nil, 2 non-nil; -1 = unchanged since entry
			st := map[string]int{headF: -1, tailF: -1}
			firstWrite := len(p.Events)
			lastWrite := map[string]int{}
			freshLocal := map[*types.Var]bool{}
			fromList := map[*types.Var]bool{}
			slotOf := map[*types.Var]string{} // local pointer -> the link field it points to
			for i, ev := range p.Events {
				// a parameter of a helper walked in place that is handed a freshly allocated element (or a
				// local holding one) is fresh too
				if ev.Kind == core.KEnter && ev.Inner != nil && ev.Call != nil && ev.Inner.CS == nil {
					if ft := ev.Inner.FuncType(); ft != nil && ft.Params != nil {
						k := 0
						for _, f := range ft.Params.List {
							for _, n := range f.Names {
								if pvv, _ := ev.Inner.Info().Defs[n].(*types.Var); pvv != nil && k < len(ev.Call.Args) {
									arg := ev.Call.Args[k]
									if isFreshExpr(arg, ev.Frame.Info()) {
										freshLocal[pvv] = true
									} else if av := identVar(arg, ev.Frame); av != nil && (freshLocal[av] || fromList[av]) {
										freshLocal[pvv], fromList[pvv] = freshLocal[av], fromList[av]
									}
								}
								k++
							}
						}
					}
				}
				if ev.Kind != core.KAssign || ev.FieldInit {
					continue
				}
				if v := identVar(ev.Lhs, ev.Frame); v != nil && !v.IsField() {
					freshLocal[v] = ev.Rhs != nil && ev.RhsIdx < 0 && isFreshExpr(ev.Rhs, ev.Frame.Info())
					fromList[v] = false
					if ev.Rhs != nil && ev.RhsIdx < 0 {
						if fv := fieldVar(ev.Rhs, ev.Frame); fv != nil {
							switch core.FieldName(fv) {
							case headF, tailF, "linkedlist.linkedListElem.next":
								fromList[v] = true
							}
						}
					}
				}
				// an element that is linked in (stored into head, tail or a next pointer) is either freshly
				// allocated on this path or already part of the list: a recycled element carries a stale
				// next pointer into the list
				if ev.Var != nil && ev.Var.IsField() && ev.Rhs != nil && ev.RhsIdx < 0 {
					switch core.FieldName(ev.Var) {
					case headF, tailF, "linkedlist.linkedListElem.next":
						if rv := identVar(ev.Rhs, ev.Frame); rv != nil && !rv.IsField() {
							a.note("R10", name+"/linked-element-fresh-or-listed", ev.Pos, !(freshLocal[rv] || fromList[rv]),
								"an element linked into the list is freshly allocated or already part of it",
								"the element "+rv.Name()+" linked into the list is neither allocated on this path nor read from the list: a recycled element brings its old next pointer along, which can make the list cyclic or drop its tail", p)
						}
					}
				}
				// a pointer to one of the link fields (slot := &l.head … *slot = elem) writes that field
				if lv := identVar(ev.Lhs, ev.Frame); lv != nil && !lv.IsField() && ev.Rhs != nil && ev.RhsIdx < 0 {
					delete(slotOf, lv)
					if u, ok := unparen(ev.Rhs).(*ast.UnaryExpr); ok && u.Op == token.AND {
						if fv := fieldVar(u.X, ev.Frame); fv != nil {
							slotOf[lv] = core.FieldName(fv)
						}
					}
				}
				target := ""
				if se, ok := unparen(ev.Lhs).(*ast.StarExpr); ok {
					if pv := identVar(se.X, ev.Frame); pv != nil {
						target = slotOf[pv]
					}
					if target != "" && ev.Rhs != nil && ev.RhsIdx < 0 {
						if rv := identVar(ev.Rhs, ev.Frame); rv != nil && !rv.IsField() {
							a.note("R10", name+"/linked-element-fresh-or-listed", ev.Pos, !(freshLocal[rv] || fromList[rv]),
								"an element linked into the list is freshly allocated or already part of it",
								"the element "+rv.Name()+" linked into the list is neither allocated on this path nor read from the list", p)
						}
					}
				}
				for _, f := range []string{headF, tailF} {
					if !assignsField(ev, f, "") && target != f {
						continue
					}
					if i < firstWrite {
						firstWrite = i
					}
					lastWrite[f] = i
					switch {
					case ev.Rhs == nil || ev.RhsIdx >= 0:
						st[f] = 0
					case isNilExpr(ev.Rhs, ev.Frame):
						st[f] = 1
					case identVar(ev.Rhs, ev.Frame) != nil && freshLocal[identVar(ev.Rhs, ev.Frame)]:
						st[f] = 2
					default:
						st[f] = 0
						if t, ok := g.builderAt(i).term(ev.Rhs, ev.Frame); ok {
							if nn, _ := implies(g.litsBefore(i, false), fnot(eq("nil", t))); nn {
								st[f] = 2
							} else if isn, _ := implies(g.litsBefore(i, false), eq("nil", t)); isn {
								st[f] = 1
							}
						}
					}
				}
			}
			// what the path learnt about the entry state (before its first write), by the invariant
			// the same for both fields
			entry := 0
			pre := g.litsBefore(firstWrite, false)
			for _, f := range []string{headF, tailF} {
				if isn, _ := implies(pre, eq("nil", f)); isn && len(pre) > 0 {
					entry = 1
				} else if nn, _ := implies(pre, fnot(eq("nil", f))); nn && len(pre) > 0 {
					entry = 2
				}
			}
			// a field written with a value of unknown nil-ness and tested afterwards (l.head = l.head.next;
			// if l.head == nil …): the branch decides
			for _, f := range []string{headF, tailF} {
				if st[f] != 0 {
					continue
				}
				var after []*r2Lit
				for j := lastWrite[f] + 1; j < len(p.Events); j++ {
					if g.lits[j] != nil {
						after = append(after, g.lits[j])
					}
				}
				if isn, _ := implies(after, eq("nil", f)); isn && len(after) > 0 {
					st[f] = 1
				} else if nn, _ := implies(after, fnot(eq("nil", f))); nn && len(after) > 0 {
					st[f] = 2
				}
			}
			h, t := st[headF], st[tailF]
			if h == -1 {
				h = entry
			}
			if t == -1 {
				t = entry
			}
			ok := st[headF] == -1 && st[tailF] == -1 || (h == t && h != 0)
			a.note("R10", name+"/head-tail-agree", d.Decl.Pos(), !ok,
				"every path leaves head and tail both nil or both non-nil (assuming the same on entry)",
				sprintf("a path can leave the list with head %s and tail %s: the methods that test emptiness on the other field (PeekTail / the append in pushElem vs Peek/Pop/IsEmpty) then disagree — an element already removed is reported, or an append is lost",
					[]string{"of unknown nil-ness", "nil", "non-nil"}[h], []string{"of unknown nil-ness", "nil", "non-nil"}[t]), p)
		})
	}
}

// diffUpperBound: if the branch event compares (v + a) with (len + b), return the upper bound it
// establishes on d = v - len on this path. v and len are given as canonical terms.
func diffUpperBound(g *gpath, j int, b *core.Event, vTerm, lenTerm string) (int, bool) {
	gb := g.builderAt(j)
	cond := unparen(b.Cond)
	// a named boolean (exceedsData := paddingLen > len(data)-1) stands for the comparison it names
	if id, isId := cond.(*ast.Ident); isId {
		if v := identVar(id, b.Frame); v != nil {
			if d, has := gb.defs[v]; has && gb.usable(d) && d.fr == b.Frame {
				cond = unparen(d.expr)
			}
		}
	}
	be, ok := cond.(*ast.BinaryExpr)
	if !ok {
		return 0, false
	}
	lin := func(e ast.Expr) (hasV, hasL bool, k int, ok bool) {
		// linear form: term, term - c, term + c, c
		e = unparen(e)
		if t0, ok0 := gb.term(e, b.Frame); ok0 {
			switch t0 {
			case vTerm:
				return true, false, 0, true
			case lenTerm:
				return false, true, 0, true
			}
		}
		// a local that names a sum/difference (end := len(data) - 1) is looked through
		if id, isId := e.(*ast.Ident); isId {
			if v := identVar(id, b.Frame); v != nil {
				if d, has := gb.defs[v]; has && gb.usable(d) {
					if _, isBin := unparen(d.expr).(*ast.BinaryExpr); isBin {
						e = unparen(d.expr)
					}
				}
			}
		}
		for {
			x, isBin := e.(*ast.BinaryExpr)
			if !isBin || (x.Op != token.SUB && x.Op != token.ADD) {
				break
			}
			tv, has := b.Frame.Info().Types[unparen(x.Y)]
			if !has || tv.Value == nil {
				return false, false, 0, false
			}
			c := 0
			if v, exact := constantInt(tv); exact {
				c = v
			} else {
				return false, false, 0, false
			}
			if x.Op == token.SUB {
				k -= c
			} else {
				k += c
			}
			e = unparen(x.X)
		}
		if tv, has := b.Frame.Info().Types[e]; has && tv.Value != nil {
			if v, exact := constantInt(tv); exact {
				return false, false, k + v, true
			}
		}
		t, okT := gb.term(e, b.Frame)
		if !okT {
			return false, false, 0, false
		}
		switch t {
		case vTerm:
			return true, false, k, true
		case lenTerm:
			return false, true, k, true
		}
		// int(data[len-1]) style conversions of the value
		if call, isCall := e.(*ast.CallExpr); isCall && len(call.Args) == 1 {
			if tt, ok2 := gb.term(call.Args[0], b.Frame); ok2 && tt == vTerm {
				return true, false, k, true
			}
		}
		return false, false, 0, false
	}
	lv, ll, lk, ok1 := lin(be.X)
	rv, rl, rk, ok2 := lin(be.Y)

	if !ok1 || !ok2 {
		return 0, false
	}
	// normalise to  (v + a) OP (len + c)
	op := be.Op
	var a, cst int
	switch {
	case lv && rl:
		a, cst = lk, rk
	case ll && rv:
		a, cst = rk, lk
		switch op { // swap sides
		case token.LSS:
			op = token.GTR
		case token.GTR:
			op = token.LSS
		case token.LEQ:
			op = token.GEQ
		case token.GEQ:
			op = token.LEQ
		}
	default:
		return 0, false
	}
	val := b.CondVal
	// v + a OP len + cst   ⇒ bound on d = v - len
	switch op {
	case token.LSS: // v+a < len+cst
		if val {
			return cst - a - 1, true
		}
	case token.LEQ:
		if val {
			return cst - a, true
		}
	case token.GTR: // v+a > len+cst ; false ⇒ v+a <= len+cst
		if !val {
			return cst - a, true
		}
	case token.GEQ: // false ⇒ v+a < len+cst
		if !val {
			return cst - a - 1, true
		}
	}
	return 0, false
}

func constantInt(tv types.TypeAndValue) (int, bool) {
	if tv.Value == nil {
		return 0, false
	}
	s := tv.Value.ExactString()
	n := 0
	neg := false
	for i, ch := range s {
		if i == 0 && ch == '-' {
			neg = true
			continue
		}
		if ch < '0' || ch > '9' {
			return 0, false
		}
		n = n*10 + int(ch-'0')
	}
	if neg {
		n = -n
	}
	return n, true
}

// readsElements: the expression reads an element of a slice/array/map (a value taken from data).
func readsElements(e ast.Expr) bool {
	found := false
	ast.Inspect(e, func(n ast.Node) bool {
		if _, ok := n.(*ast.IndexExpr); ok {
			found = true
		}
		return !found
	})
	return found
}

// callRecv is the receiver expression of a method call x.M(...), nil otherwise.
func callRecv(call *ast.CallExpr) ast.Expr {
	if call == nil {
		return nil
	}
	if sel, ok := unparen(call.Fun).(*ast.SelectorExpr); ok {
		return sel.X
	}
	return nil
}

// hasMethod: the type's method set (pointer receiver included) has a method of that name.
func hasMethod(t types.Type, name string) bool {
	if o, _, _ := types.LookupFieldOrMethod(t, true, nil, name); o != nil {
		_, ok := o.(*types.Func)
		return ok
	}
	return false
}

// frameWithinEntry: the frame belongs to the walked entry (always true for events of a walk; kept to
// state the intent: the buffer is made inside the pump).
func frameWithinEntry(fr *core.Frame) bool { return fr != nil }
