#!/bin/bash
# usage: patchcheck.sh <patch.diff> <label>  -> prints "<label> <prop>:<rules> ..." for every check that raises an alarm
P=$1; L=$2
WT=$(mktemp -d /tmp/pchk.XXXXXX); EV=$(mktemp -d /tmp/pchk-ev.XXXXXX)
git -C /repo worktree add -q --detach "$WT/r" HEAD || exit 2
trap 'git -C /repo worktree remove --force "$WT/r" >/dev/null 2>&1; rm -rf "$WT" "$EV"' EXIT
(cd "$WT/r" && git apply "$P") || { echo "$L APPLY-FAILED"; exit 0; }
out=""
for p in ${PROPS:-C01 C02 C03 C04 C05 C06 C07 C08 C09 C10 C11 C12 C13 C14 C15 C16 C17 C18 C19 C20}; do
  o=$(timeout 600 /verif/bin/utilcheck -repo "$WT/r" -evidence "$EV" -property $p 2>&1)
  if echo "$o" | grep -q "^VIOLATION property=$p"; then
    rules=$(echo "$o" | grep -E "^(VIOLATED|UNDECIDED) " | awk '{print $2"@"$3}' | sort -u | tr '\n' ',')
    out="$out $p:[${rules%,}]"
  fi
done
echo "$L${out:- clean}"
