#!/bin/bash
# usage: pc.sh <silent-label> [props...]   e.g. pc.sh S1-p5 C01 C03
L=$1; shift
PROPS="$*" /verif/tools/patchcheck.sh /verif/silent/$L.diff $L
