#!/bin/bash
# Runs every seeded change in /verif/seeded against the checks, in a scratch worktree of /repo
# (outside /repo and /verif, removed afterwards). Usage: tools/seedmatrix.sh [all|own]
#   own: only the check of the property the seed was written against (default)
#   all: every property check (slow)
MODE=${1:-own}
WT=$(mktemp -d /tmp/seedmx.XXXXXX)
EV=$(mktemp -d /tmp/seedmx-ev.XXXXXX)
git -C /repo worktree add -q --detach "$WT/r" HEAD || exit 2
trap 'git -C /repo worktree remove --force "$WT/r" >/dev/null 2>&1; rm -rf "$WT" "$EV"' EXIT
cd /verif
for d in seeded/*/; do
  id=$(basename "$d"); prop=$(python3 -c "import json;m=json.load(open('/verif/$d/meta.json'));print(' '.join(m.get('properties') or [m['property']]))")
  (cd "$WT/r" && git checkout -q -f -- . && git apply "/verif/$d/patch.diff") || { echo "$id APPLY-FAILED"; continue; }
  props=$prop
  [ "$MODE" = all ] && props="C01 C02 C03 C04 C05 C06 C07 C08 C09 C10 C11 C12 C13 C14 C15 C16 C17 C18 C19 C20"
  caught=""
  for p in $props; do
    out=$(timeout 300 bin/utilcheck -repo "$WT/r" -evidence "$EV" -property $p 2>&1)
    if echo "$out" | grep -q "^VIOLATION property=$p"; then
      rules=$(echo "$out" | grep -E "^(VIOLATED|UNDECIDED) " | awk '{print $2}' | sort -u | tr '\n' ',' )
      caught="$caught $p[${rules%,}]"
    fi
  done
  if [ -n "$caught" ]; then echo "$id CAUGHT:$caught"; else echo "$id MISSED"; fi
done
