#!/bin/bash
# usage: patchcheck_own.sh <dir with patch.diff> <property> <label>: runs only that property's check
P=$1/patch.diff; PROPS=$2 /verif/tools/patchcheck.sh "$P" "$3"
