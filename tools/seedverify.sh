#!/bin/bash
# usage: seedverify.sh <seed-out-dir (patch.diff, demo_test.go, meta.json)> <label>
# Confirms a sub-agent's seed in a fresh scratch worktree of /repo HEAD (under mktemp, removed):
#   demo passes without the change; the change applies and builds; the pinned suite passes with it;
#   the demo fails with it. Prints one line: <label> nochange=PASS apply=OK build=OK suite=PASS change=FAIL
export GOFLAGS=-mod=mod GOPROXY=off GOSUMDB=off GOTOOLCHAIN=local; unset GOWORK
D=$1; L=$2
WT=$(mktemp -d /tmp/sv.XXXXXX)
git -C /repo worktree add -q --detach "$WT/r" HEAD || exit 2
trap 'git -C /repo worktree remove --force "$WT/r" >/dev/null 2>&1; rm -rf "$WT"' EXIT
cd "$WT/r"
pkg=$(python3 -c "import json;m=json.load(open('$D/meta.json'));print(m.get('demo_pkg_dir') or m.get('demo',{}).get('pkg_dir'))")
race=$(python3 -c "import json;m=json.load(open('$D/meta.json'));print('-race' if (m.get('demo_needs_race_detector') or m.get('demo',{}).get('needs_race')) else '')")
demo=$D/demo_test.go; [ -f "$demo" ] || demo=$D/demo_test.go.txt
cp "$demo" "$pkg/zz_seed_demo_test.go"
run_demo() { timeout 300 go test -vet=off -count=1 $race -run 'TestSeedDemo' ./$pkg/ > "$1" 2>&1; echo $?; }
r0=$(run_demo "$WT/nochange.log"); [ "$r0" = 0 ] && nochange=PASS || nochange=FAIL
if git apply "$D/patch.diff" 2>/dev/null; then apply=OK; else apply=FAILED; fi
if go build ./... > "$WT/build.log" 2>&1; then build=OK; else build=FAILED; fi
rm -f "$pkg/zz_seed_demo_test.go"
suite=PASS
go test -vet=off -count=1 -timeout 25m ./... > "$WT/suite.log" 2>&1 || { # one retry for the known timing-flaky tests
  go test -vet=off -count=1 -timeout 25m ./... > "$WT/suite2.log" 2>&1 || suite=FAIL; }
cp "$demo" "$pkg/zz_seed_demo_test.go"
fails=0; for k in 1 2 3; do r=$(run_demo "$WT/change$k.log"); [ "$r" != 0 ] && fails=$((fails+1)); done
[ $fails -ge 2 ] && change=FAIL || change="PASS($fails/3 failed)"
echo "$L nochange=$nochange apply=$apply build=$build suite=$suite change=$change"
