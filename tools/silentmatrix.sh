#!/bin/bash
# usage: silentmatrix.sh [glob]   -> runs all 20 checks on every behaviour-preserving refactor in /verif/silent; prints the alarming ones
G=${1:-*}
ls /verif/silent/$G.diff | xargs -P 7 -I{} sh -c 'l=$(basename {} .diff); /verif/tools/patchcheck.sh {} $l' | sort > /tmp/silentmatrix.out
grep -vc " clean$" /tmp/silentmatrix.out | sed 's/^/alarming: /'
grep -c " clean$" /tmp/silentmatrix.out | sed 's/^/clean: /'
grep -v " clean$" /tmp/silentmatrix.out
